#!/usr/bin/env python3
"""tools/check_tags.py: every property tag on a clause must also be on the contract's props line
(functions are selected per property by the props line; a clause tagged for a property the function is not
listed under would never be checked for it). Exit 1 and list the offenders otherwise."""
import re, glob, sys
files = glob.glob('/repo/verif_contracts*.go') + glob.glob('/repo/*/verif_contracts*.go') + glob.glob('/repo/*/*/verif_contracts*.go')
bad = 0
for f in sorted(files):
    cur = None; props = set(); tags = set()
    def flush():
        global bad
        if cur and tags - props:
            print(f.replace('/repo/', ''), cur, 'tagged but not listed:', sorted(tags - props)); bad += 1
    for l in open(f).read().split('\n'):
        m = re.match(r'//@ (func|iface|extern) (.*)', l)
        if m:
            flush(); cur = m.group(2); props = set(); tags = set(); continue
        m = re.match(r'//@ props (.*)', l)
        if m: props |= set(m.group(1).split()); continue
        m = re.match(r'//@\s+\w+\.[\w$]+\[([^\]]*)\]', l)
        if m: tags |= set(x.strip() for x in m.group(1).split(','))
    flush()
print('tag check:', 'ok' if not bad else f'{bad} contracts')
sys.exit(1 if bad else 0)
