#!/bin/bash
# tools/run_seed.sh <seed-id> [prop ...]: run quick checks against a seeded change (on a scratch copy of /repo)
set -u
cd /verif
id=$1; shift
props="$*"; [ -z "$props" ] && props=$(python3 -c "import json;print(json.load(open('seeded/$id/meta.json'))['property'].split(':')[0].split()[0])")
S=$(mktemp -d /tmp/runseed.XXXX); rsync -a --exclude .git /repo/ $S/
(cd $S && patch -s -p1 < /verif/seeded/$id/patch.diff) || { echo "$id: patch does not apply to current tree"; rm -rf $S; exit 2; }
for p in $props; do
  out=$(./bin/govc check -repo $S -verif /verif -prop $p -tier quick -no-evidence 2>&1); rc=$?
  echo "== $id on $p: rc=$rc"; echo "$out" | grep -E '^(VIOLATION|UNDECIDED|KNOWN)' | cut -c1-220 | head -6
done
rm -rf $S
