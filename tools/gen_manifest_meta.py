#!/usr/bin/env python3
"""tools/gen_manifest_meta.py: rebuilds tools/manifest_meta.json (level texts and notes of MANIFEST.json) from the
as-built decision table of DESIGN.md §0 and from props.json; run before tools/gen_manifest.py."""
import json
V = '/verif'
d = open(V + '/DESIGN.md').read()
i = d.index('| id | decided by (P/L/F/B/R) |')
rows = {}
for line in d[i:].splitlines()[2:]:
    if not line.startswith('| C'):
        break
    c = [x.strip() for x in line.strip().strip('|').split('|')]
    rows[c[0]] = (c[1], c[2])
props = json.load(open(V + '/props.json'))
meta = json.load(open(V + '/tools/manifest_meta.json'))
for pid, (dec, nd) in rows.items():
    p = props[pid]
    text = "P = obligation proved by SMT against the SSA of the real function, L = lemma over verified contracts, F = frame scan over all loaded /repo SSA, B = bounded stand-in (labelled bounded, not counted), R = fallback replay on real code. " + dec
    note = "Trusted: govc (SSA semantics, contract parser, VC encoding), the SMT solvers, sequentially consistent memory, the extern library models and assumed gocbcore/interface contracts listed in the evidence file. Not decided / assumed: " + nd + "."
    if p.get('bounded_runs'):
        note += " Bounded stand-ins (always run; labelled bounded in the evidence; never counted among the proved obligations): " + ", ".join(b['name'] for b in p['bounded_runs']) + "."
    if p.get('fallbacks'):
        note += " Fallback deciders (bounded runs of the real function, used when a function was restructured so that its proof annotations no longer fit, and to attach a concrete failing scenario to a failed obligation; never run on a tree whose obligations discharge, except in the thorough tier): " + ", ".join(f['name'] for f in p['fallbacks']) + "."
    meta['checks'][pid]['text'] = text
    meta['checks'][pid]['note'] = note
json.dump(meta, open(V + '/tools/manifest_meta.json', 'w'), indent=1)
print(len(rows), 'rows')
