#!/usr/bin/env python3
"""Prints the generated tables of DESIGN.md (as-built decision table, seeds-vs-checks table) from
props.json, evidence/*.json, seeded/*/meta.json and seeded/RESULTS.tsv. Usage: gen_design_tables.py > out/tables.md"""
import json, os, glob, re
V = '/verif'
props = json.load(open(V + '/props.json'))
titles = {json.loads(l)['id']: json.loads(l)['title'] for l in open(V + '/properties.jsonl')}
import io,sys
_out=io.StringIO()
_real=sys.stdout
sys.stdout=_out
print('| id | functions under contract | obligations (quick) | lemmas | frame scans | bounded stand-ins (always run; never counted as proved) | fallback replays (run when something fails) | fallback deciders for restructured code | quick wall |')
print('|---|---|---|---|---|---|---|---|---|')
for pid in sorted(props):
    p = props[pid]
    ev = {}
    try:
        ev = json.load(open(f'{V}/evidence/{pid}.json'))
    except Exception:
        pass
    cov = ev.get('coverage', {})
    fns = [f.get('function') for f in cov.get('functions_under_contract', []) if f.get('function')]
    lem = [f.get('lemma') for f in cov.get('functions_under_contract', []) if f.get('lemma')]
    print(f"| {pid} | {len(fns)} | {cov.get('discharged','?')}/{cov.get('obligations','?')} | {', '.join(p.get('lemmas', [])) or '-'} | {', '.join(p.get('frames', [])) or '-'} | {', '.join(b['name'] for b in p.get('bounded_runs', [])) or '-'} | {', '.join(r['name'] for r in p.get('replays', [])) or '-'} | {', '.join(r['name'] for r in p.get('fallbacks', [])) or '-'} | {ev.get('wall_s', 0):.0f} s |")
asbuilt=_out.getvalue(); _out=io.StringIO(); sys.stdout=_out
res = {}
if os.path.exists(V + '/seeded/RESULTS.tsv'):
    for l in open(V + '/seeded/RESULTS.tsv'):
        f = l.rstrip('\n').split('\t')
        if len(f) >= 2:
            res[f[0]] = (f[1], f[2] if len(f) > 2 else '')
print('| seed | function(s) changed | what it breaks (short) | check result | obligations / runs that report it |')
print('|---|---|---|---|---|')
for d in sorted(glob.glob(V + '/seeded/C*')):
    sid = os.path.basename(d)
    m = json.load(open(d + '/meta.json'))
    wb = re.sub(r'\s+', ' ', m.get('what_breaks', ''))
    wb = wb[:150] + ('…' if len(wb) > 150 else '')
    files = ', '.join(m.get('files_changed', []))
    r, o = res.get(sid, ('?', ''))
    o = re.sub(r'VIOLATION property=\S+ replay=\S+ ', '', o)
    o = re.sub(r'\(real code run: [^)]*\)', '', o)
    o = o.strip()[:170]
    print(f"| {sid} | {files} | {wb.replace('|','/')} | {r} | {o.replace('|','/')} |")

seeds=_out.getvalue(); sys.stdout=_real
if '--update' in sys.argv:
    d=open(V+'/DESIGN.md').read()
    def put(d,tag,txt):
        a='<!-- BEGIN:%s -->'%tag; b='<!-- END:%s -->'%tag
        i=d.index(a)+len(a); j=d.index(b)
        return d[:i]+'\n'+txt+d[j:]
    d=put(d,'asbuilt-table',asbuilt)
    d=put(d,'seed-table',seeds)
    open(V+'/DESIGN.md','w').write(d)
    print('DESIGN.md tables updated')
else:
    print(asbuilt); print(seeds)
