#!/bin/bash
# tools/mkmutant.sh <prop> <alarm|quiet>.<name> <file> <sed-expr> [expect]
# creates selftest/mutants/<prop>/<kind>.<name>.patch from a sed edit of /repo/<file> (on a copy).
set -eu
prop=$1; name=$2; file=$3; expr=$4; expect=${5:-}
d=$(mktemp -d); mkdir -p $d/a/$(dirname $file) $d/b/$(dirname $file)
cp /repo/$file $d/a/$file; cp /repo/$file $d/b/$file
sed -i "$expr" $d/b/$file
if cmp -s $d/a/$file $d/b/$file; then echo "sed expression changed nothing" >&2; rm -rf $d; exit 1; fi
mkdir -p /verif/selftest/mutants/$prop
out=/verif/selftest/mutants/$prop/$name.patch
{ [ -n "$expect" ] && echo "# expect: $expect"; (cd $d && diff -u a/$file b/$file || true); } > $out
rm -rf $d; echo "wrote $out"
