#!/usr/bin/env python3
"""tools/add_params.py: gives every `//@ func` contract block a `//@ params <names>` line holding the parameter
names the contract uses (receiver first), taken from the current code. With it the contract binds its names by
position, so renaming a parameter or receiver in the code does not touch the contract. Idempotent; run it after the
contract generators (they rewrite their files without the line)."""
import subprocess, collections, re
out = subprocess.run(['/verif/bin/govc', 'params', '.'], capture_output=True, text=True).stdout
byfile = collections.defaultdict(dict)
for l in out.splitlines():
    f, key, names, fvs = (l.split('\t') + ['', ''])[:4]
    byfile[f][key] = (names, fvs)
n = 0
for f, keys in byfile.items():
    lines = open(f).read().split('\n')
    res = []
    i = 0
    while i < len(lines):
        res.append(lines[i])
        m = re.match(r'//@ func (.+)$', lines[i])
        if m and m.group(1).strip() in keys:
            # does the block already have a params line?
            j = i + 1
            has = False
            hasfv = False
            while j < len(lines) and lines[j].startswith('//@') and not re.match(r'//@ (func|iface|extern|pure|ghost) ', lines[j]):
                if lines[j].startswith('//@ params'):
                    has = True
                if lines[j].startswith('//@ freevars'):
                    hasfv = True
                j += 1
            names, fvs = keys[m.group(1).strip()]
            if not has and names.strip():
                res.append('//@ params ' + names)
                n += 1
            if not hasfv and fvs.strip():
                res.append('//@ freevars ' + fvs)
                n += 1
        i += 1
    open(f, 'w').write('\n'.join(res))
print('params lines added:', n)
