#!/bin/bash
# tools/confirm_quiet.sh <worktree> <outdir/qN> <id>: a behaviour-preserving change: applies, builds, existing tests pass -> /verif/quiet/<id>/
set -u
export GOFLAGS=-mod=mod GOPROXY=off GOSUMDB=off GOTOOLCHAIN=local
wt=$1; src=$2; id=$3
cd "$wt" || exit 2
git checkout -q -- . ; git clean -qfd
git apply "$src/patch.diff" || { echo "$id: patch does not apply"; exit 1; }
ok=1
go build ./... >/dev/null 2>&1 || { echo "$id: build fails"; ok=0; }
go test -vet=off -count=1 ./... >/dev/null 2>&1 || { echo "$id: tests fail"; ok=0; }
git checkout -q -- .
if [ $ok -eq 1 ]; then mkdir -p /verif/quiet/$id; cp "$src/patch.diff" "$src/meta.json" /verif/quiet/$id/; echo "$id: confirmed"; fi
