#!/usr/bin/env python3
# tools/mk_quiet_prompts.py: worktrees /tmp/quiet/Cxx (contract files hidden) and prompts for sub-agents that
# produce BEHAVIOUR-PRESERVING changes (the checks must stay quiet on them).
import json, os, subprocess, glob, sys
rnd = sys.argv[1] if len(sys.argv) > 1 else '1'
qa, qb = {'1': ('q1', 'q2'), '2': ('q3', 'q4'), '3': ('q5', 'q6'), '4': ('q7', 'q8'), '5': ('q9', 'q10')}[rnd]
extra = {'5': ' For this round, whenever the property touches one of the following pieces of code, make at least one of your two changes THERE (they were changed or reviewed recently and need exercising); otherwise pick freely among the anchors: stream/stream.go Open (the block that builds the checkpoint, observers and range), Close, listen (the type switch), openAllStreams, reopenStream, setOffset; stream/checkpoint.go Save, Load, StartSchedule/StopSchedule; couchbase/doc_op.go (how each wrapper builds its gocbcore options struct and waits), couchbase/async_op.go; couchbase/observer.go needCatchup, canForward, End, SnapshotMarker, SeqNoAdvanced; couchbase/rollback_mitigation.go observe (and its completion callback), observeVbID, reset, markAbsentInstances, getMinSeqNo; couchbase/healthcheck.go Start, Stop, run, performHealthCheck; couchbase/http_client.go GetVersion; couchbase/metadata.go Load, Save, NewCBMetadata; couchbase/client.go createMetadataAgent, getCollectionID; couchbase/membership.go membershipChangedListener, GetInfo, rebalance; metadata/file_metadata.go; membership/dynamic_membership.go; kubernetes/stateful_set_membership.go getPodOrdinalFromHostname, kubernetes/ha_membership.go; helpers/utils.go Retry, ChunkSlice, IsMetadata; helpers/data_units.go; config/dcp.go applyDefaultGroupMembership; dcp.go printConfiguration, newDcpConfig, Commit, close, membershipChangedListener. Typical edits: rename locals and parameters (including named results), introduce temporaries for struct literals or for fields read twice, build a struct literal field by field, replace if/else by guard clauses, extract a helper for a block and call it at the same place, inline a helper, reorder independent statements, switch <-> if chains, loop form changes.', '4': ' For this round one of the two changes must be in code AROUND the anchored functions rather than in them - code they call or that calls them: constructors (New...), the metadata backends (metadata/file_metadata.go, couchbase/metadata.go Load/Save/NewCBMetadata), membership implementations and their listeners (membership/, couchbase/membership.go, kubernetes/ha_membership.go), the root package (dcp.go: Start, close, membershipChangedListener, newDcpConfig), couchbase/http_client.go, couchbase/client.go connection helpers, stream/checkpoint.go Save/Load, stream/stream.go Open - whichever of these the property touches. The other change is free. Use the whole palette: renames, extracted/inlined helpers, reordered independent statements, equivalent conditions, loop restructuring, guard clauses instead of if/else, temporaries, named constants, extra log lines.', '3': ' For this round make the kind of change a maintainer makes when touching the code for unrelated reasons: add or reword log lines and comments next to code moves, introduce named constants, pre-size slices and maps, replace an if/else by a switch, change the iteration style, reorder declarations, extract a predicate function, wrap an error with more context only where the error text is not compared, add a defensive nil check on a value that can never be nil, convert a method expression to a closure or back, turn a closure into a named method.', '1': '', '2': ' For this round prefer the LARGER kinds of harmless change: extract a block of an anchored function into a new helper method (including blocks that assign struct fields, start goroutines or call other components) and call it from the same place; inline a small helper into its only caller; rename local variables, named results, parameters of function literals (callbacks) and receiver names; restructure loops (index loop <-> range loop, loop with break <-> loop with condition, early continue); split one function into two that are called in sequence; merge two adjacent if statements; move a declaration closer to its use; change an unused callback parameter to the blank identifier or back.'}[rnd]
props = {json.loads(l)['id']: json.loads(l) for l in open('/verif/properties.jsonl')}
head = '''You are helping to evaluate a verification tool for a Go library (Trendyol/go-dcp, a Couchbase DCP consumer library) by producing HARMLESS, behaviour-preserving source changes: the kind of edit a maintainer makes all the time and that must NOT be reported as a defect. You work ONLY inside scratch git worktrees under /tmp/quiet/ — never touch /repo or /verif, never read anything under /verif.

For EACH of the properties below, produce TWO different changes to the library code that the property depends on (the anchors name the functions) such that the property STILL HOLDS and the observable behaviour of the library is unchanged for every input and schedule. Make them realistic and varied: e.g. rename a local variable, extract or inline a small helper, reorder two independent statements, replace a condition by a logically equivalent one (De Morgan, `!(a > b)` for `a <= b` on integers), turn an if/else chain into a switch or early returns, convert an index loop into an equivalent range loop (or back), hoist a loop-invariant expression, replace a literal by a named constant, add a log line or a comment, introduce a temporary.{extra} Each change must touch executable code of at least one anchored function (not only comments) and must keep every exported and unexported signature that other packages or the tests use. Do NOT change behaviour in any corner case (no changed bounds, no changed order of externally visible calls, no changed error values or log-level-dependent control flow). The library must still compile (`go build ./...`) and the existing unit tests must still pass.

Worktrees (one per property, each a checkout of the library at the same commit): {wts}. Output directories: {outs}.

Environment: no network. Before every go command: `export GOFLAGS=-mod=mod GOPROXY=off GOSUMDB=off GOTOOLCHAIN=local`. Run tests with `go test -vet=off -count=1 ./...` from the worktree root (ignore the separate `test/integration` module).

Properties:
'''
tail = '''
For each change write, in the property's output directory, a sub-directory {qa}/ and {qb}/ containing:
 - patch.diff : `git diff` against the worktree's HEAD; it must apply with `git apply` to a clean checkout.
 - meta.json : {{{{"property": "Cxx", "what_changes": "...", "why_equivalent": "a short argument that behaviour is unchanged for all inputs", "files_changed": [...]}}}}

Verify yourself: with the patch applied `go build ./...` succeeds and `go test -vet=off -count=1 ./...` passes. Leave each worktree clean at the end (git checkout -- .). Do not commit anything and do NOT use `git stash` (the worktrees share one stash).

Report back a short table: property, change, one-line description.'''
ids = sorted(props)
batches = [ids[i:i + 5] for i in range(0, len(ids), 5)]
os.makedirs('/tmp/quiet', exist_ok=True)
for x in ids:
    wt = '/tmp/quiet/' + x
    if not os.path.isdir(wt):
        subprocess.check_call(['git', '-C', '/repo', 'worktree', 'add', '-q', '--detach', wt, 'HEAD'])
        hidden = glob.glob(wt + '/**/verif_contracts*.go', recursive=True)
        rel = [os.path.relpath(h, wt) for h in hidden]
        subprocess.check_call(['git', '-C', wt, 'update-index', '--skip-worktree'] + rel)
        for h in hidden:
            os.remove(h)
    os.makedirs('/tmp/quiet/out-' + x, exist_ok=True)
for i, b in enumerate(batches):
    s = head.format(wts=', '.join('/tmp/quiet/' + x for x in b), outs=', '.join('/tmp/quiet/out-' + x for x in b), extra=extra)
    for x in b:
        p = props[x]
        s += f"\n--- {x} ---\n{p['title']}. {p['statement']}\n(Anchors: {', '.join(m['where'] for m in p['anchors']['mechanism'])})\n"
    s += tail.format(qa=qa, qb=qb)
    open(f'/tmp/quiet/prompt{i}.txt', 'w').write(s)
print(len(batches), 'prompts')
