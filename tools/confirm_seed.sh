#!/bin/bash
# tools/confirm_seed.sh <worktree> <outdir/mN> <seed-id>
# Confirms a seeded change: patch applies, library builds, existing tests pass, demo fails with / passes without.
# On success copies it to /verif/seeded/<seed-id>/ with a meta.json "confirmed" section.
set -u
export GOFLAGS=-mod=mod GOPROXY=off GOSUMDB=off GOTOOLCHAIN=local
wt=$1; src=$2; id=$3
cd "$wt" || exit 2
git checkout -q -- . ; git clean -qfd
demo=$(python3 -c "import json;print(json.load(open('$src/meta.json'))['demo_test_path'])")
run=$(python3 -c "import json;print(json.load(open('$src/meta.json'))['demo_run'])")
demofile=$(ls $src/*_test.go | head -1)
log=$(mktemp)
ok=1
git apply "$src/patch.diff" || { echo "$id: patch does not apply"; exit 1; }
go build ./... >>$log 2>&1 || { echo "$id: build fails"; ok=0; }
go test -vet=off -count=1 ./... >>$log 2>&1 || { echo "$id: existing tests fail with patch"; ok=0; }
cp "$demofile" "$demo"
if eval "$run" >>$log 2>&1; then echo "$id: demo PASSES with patch (should fail)"; ok=0; fi
git checkout -q -- . 
if ! eval "$run" >>$log 2>&1; then echo "$id: demo FAILS without patch (should pass)"; ok=0; fi
rm -f "$demo"; git clean -qfd
if [ $ok -eq 1 ]; then
  mkdir -p /verif/seeded/$id
  cp "$src/patch.diff" /verif/seeded/$id/patch.diff
  cp "$demofile" /verif/seeded/$id/
  python3 - "$src/meta.json" /verif/seeded/$id/meta.json "$run" <<'PY'
import json,sys
m=json.load(open(sys.argv[1]))
m['confirmed']={'by':'tools/confirm_seed.sh','ran':['git apply patch.diff','go build ./...','go test -vet=off -count=1 ./... (existing suite, passes)','demo with patch: fails','demo without patch: passes'],'demo_run':sys.argv[3]}
json.dump(m,open(sys.argv[2],'w'),indent=1)
PY
  echo "$id: confirmed"
else
  tail -5 $log
fi
rm -f $log
