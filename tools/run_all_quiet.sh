#!/bin/bash
# tools/run_all_quiet.sh [ids...]: each behaviour-preserving change must leave its property's quick check quiet; table to out/quiet.tsv
cd /verif
ids="$*"; [ -z "$ids" ] && ids=$(ls quiet | grep -v RESULTS)
mkdir -p out/quietlogs
run() { id=$1; tools/run_quiet.sh $id > out/quietlogs/$id.log 2>&1
  if grep -q '^VIOLATION' out/quietlogs/$id.log; then r=FALSE-ALARM; elif grep -q '^UNDECIDED' out/quietlogs/$id.log; then r=UNDECIDED; elif grep -q 'rc=0' out/quietlogs/$id.log; then r=quiet; else r=error; fi
  echo -e "$id\t$r\t$(grep -E '^(VIOLATION|UNDECIDED)' out/quietlogs/$id.log | sed -E 's/.*(obligation=|reason=)([^ ]*).*/\2/' | sort -u | head -4 | tr '\n' ' ')"; }
export -f run
printf '%s\n' $ids | xargs -P 5 -I{} bash -c 'run {}' | sort | tee out/quiet.tsv
