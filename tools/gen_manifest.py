#!/usr/bin/env python3
"""Regenerates /verif/MANIFEST.json from props.json + tools/manifest_meta.json."""
import json, os, subprocess
root = os.path.dirname(os.path.dirname(os.path.abspath(__file__)))
props = json.load(open(os.path.join(root, "props.json")))
meta = json.load(open(os.path.join(root, "tools", "manifest_meta.json")))
allids = [json.loads(l)["id"] for l in open(os.path.join(root, "properties.jsonl"))]
baseline = json.load(open("/root/.vp/BASELINE.json"))["cmd"]
checks = []
for pid in allids:
    if pid not in props:
        continue
    m = meta["checks"][pid]
    checks.append({
        "property_id": pid,
        "quick_cmd": f"bin/check {pid} quick",
        "thorough_cmd": f"bin/check {pid} thorough",
        "evidence_file": f"/verif/evidence/{pid}.json",
        "engine": "govc",
        "level_claimed": {"category": "proof", "text": m["text"], "design_ref": m.get("design_ref", "DESIGN.md §4 " + pid)},
        "level_note": m["note"],
        "technique": m.get("technique", "contract-based deductive verification: weakest-precondition style VCs generated from go/ssa of the real functions against //@ contracts, discharged by z3/cvc5; property lemma over the verified contracts"),
    })
na = [{"property_id": pid, "reason": meta["not_applicable"].get(pid, "not yet brought under contract in this revision of /verif; no other technique is used in its place")} for pid in allids if pid not in props]
hook_commits = subprocess.run(["git", "-C", "/repo", "log", "--format=%H %s", "--grep=^verif hook"], capture_output=True, text=True).stdout.strip().splitlines()
man = {
    "version": 1,
    "setup_cmd": "cd /verif/engine && GOFLAGS=-mod=mod GOPROXY=off GOSUMDB=off GOTOOLCHAIN=local go build -o ../bin/govc .",
    "hooks": {
        "guard": "verif",
        "enable": "go build tag `verif` (-tags verif): adds the comment-only files <pkg>/verif_contracts.go holding the //@ contracts; no executable code is added",
        "baseline_off_cmd": baseline,
        "source_commits": [l.split()[0] for l in hook_commits],
        "add_only": True,
    },
    "engines": [{"name": "govc", "path": "/verif/engine", "serves_properties": [c["property_id"] for c in checks],
                 "kind_free_text": "self-written VC generator: symbolic execution of go/ssa (NaiveForm) of the real /repo functions against Gobra-style //@ contracts kept in build-tagged comment files; loops cut at invariants; calls by callee contract; lemma scripts over the verified contracts; obligations discharged by z3 5.1 / cvc5 1.0 / z3 4.8"}],
    "checks": checks,
    "not_applicable": na,
    "notes": meta.get("notes", ""),
}
json.dump(man, open(os.path.join(root, "MANIFEST.json"), "w"), indent=1)
print("checks:", len(checks), "not_applicable:", len(na))
