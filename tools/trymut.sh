#!/bin/bash
# tools/trymut.sh <file> <sed-expr> <pkgs> <func-filter>: quick developer check of one mutation on a scratch copy
set -u
file=$1; expr=$2; pkgs=$3; func=$4
S=$(mktemp -d /tmp/trymut.XXXX); rsync -a --exclude .git /repo/ $S/
sed -i "$expr" $S/$file
if cmp -s /repo/$file $S/$file; then echo "NO CHANGE"; rm -rf $S; exit 2; fi
(cd $S && GOFLAGS=-mod=mod GOPROXY=off GOSUMDB=off GOTOOLCHAIN=local go build ./... 2>&1 | head -3)
/verif/bin/govc verify -repo $S -pkgs $pkgs -func "$func" -t 5 2>&1 | grep -E 'failed|undecided|UNDECIDED' | grep -v 'failed=0 undecided=0' | cut -c1-200 | head -8
rm -rf $S
