#!/bin/bash
# tools/run_quiet.sh <id> [prop ...]: quick checks against a behaviour-preserving change (scratch copy of /repo): every check must stay quiet
set -u
cd /verif
id=$1; shift
props="$*"; [ -z "$props" ] && props=$(python3 -c "import json;print(json.load(open('quiet/$id/meta.json'))['property'].split(':')[0].split()[0])")
S=$(mktemp -d /tmp/runquiet.XXXX); rsync -a --exclude .git /repo/ $S/
(cd $S && patch -s -p1 < /verif/quiet/$id/patch.diff) || { echo "$id: patch does not apply to current tree"; rm -rf $S; exit 2; }
for p in $props; do
  out=$(./bin/govc check -repo $S -verif /verif -prop $p -tier quick -no-evidence 2>&1); rc=$?
  echo "== $id on $p: rc=$rc"; echo "$out" | grep -E '^(VIOLATION|UNDECIDED|KNOWN)' | cut -c1-260 | head -6
done
rm -rf $S
