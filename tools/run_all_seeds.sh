#!/bin/bash
# tools/run_all_seeds.sh [ids...]: run each seed's property quick check against the seeded tree; table to out/seeds.tsv
cd /verif
ids="$*"; [ -z "$ids" ] && ids=$(ls seeded | grep -v RESULTS)
mkdir -p out/seedlogs
run() { id=$1; tools/run_seed.sh $id > out/seedlogs/$id.log 2>&1
  if grep -q '^VIOLATION' out/seedlogs/$id.log; then r=VIOLATION; elif grep -q '^UNDECIDED' out/seedlogs/$id.log; then r=UNDECIDED; elif grep -q 'rc=0' out/seedlogs/$id.log; then r=missed; else r=error; fi
  echo -e "$id\t$r\t$(grep -E '^VIOLATION' out/seedlogs/$id.log | sed -E 's/.*obligation=([^ ]*).*/\1/' | sort -u | head -4 | tr '\n' ' ')"; }
export -f run
printf '%s\n' $ids | xargs -P 5 -I{} bash -c 'run {}' | sort | tee out/seeds.tsv
