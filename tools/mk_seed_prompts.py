#!/usr/bin/env python3
# tools/mk_seed_prompts.py <round>: creates scratch worktrees /tmp/seed/Cxx of /repo (contract files hidden) and the
# self-contained prompts /tmp/seed/prompt<i>.txt given to fresh sub-agents (property text + worktree only).
import json, os, subprocess, sys, glob
rnd = sys.argv[1] if len(sys.argv) > 1 else '2'
names = {'1': ('m1', 'm2'), '2': ('m3', 'm4'), '3': ('m5', 'm6'), '4': ('m7', 'm8'), '5': ('m9', 'm10'), '6': ('m11', 'm12'), '7': ('m13', 'm14'), '8': ('m15', 'm16'), '9': ('m17', 'm18')}[rnd]
props = {json.loads(l)['id']: json.loads(l) for l in open('/verif/properties.jsonl')}
head = '''You are helping to evaluate a verification tool by seeding realistic, subtle defects into a Go library (Trendyol/go-dcp, a Couchbase DCP consumer library). You work ONLY inside scratch git worktrees under /tmp/seed/ — never touch /repo or /verif, never read anything under /verif.

For EACH of the properties below, produce TWO different code changes ("mutants") to the library that BREAK the property while (a) the library still compiles (`go build ./...`), and (b) the existing unit tests still pass. Each mutant must need something specific to manifest (a particular input, a multi-step sequence of operations, an unusual value, a particular interleaving or timing, a fault at a particular point, or two cooperating sites that each look fine alone) — not something any ordinary use would expose at once. Prefer changes that look like plausible refactorings / optimisations / bug-fix attempts a maintainer might really make; vary the kind of change (do not only flip comparison operators). {extra}

Worktrees (one per property, each a checkout of the library at the same commit): {wts}. Output directories: {outs}.

Environment: no network. Before every go command: `export GOFLAGS=-mod=mod GOPROXY=off GOSUMDB=off GOTOOLCHAIN=local`. Run tests with `go test -vet=off -count=1 ./...` from the worktree root (the `test/integration` module needs a server and is a separate module - ignore it). Only the root module's tests matter.

Properties:
'''
extra = {'9': 'For this round at least ONE of the two changes per property must be about ORDER or CONCURRENCY rather than values: a lock dropped, narrowed or taken later; a wait (WaitGroup, channel receive, Wait on an operation) removed or moved; state published before it is complete (a flag set before the data it guards, a map entry stored before its fields are filled); a goroutine started earlier or later than the state it reads; a channel made unbuffered or buffered; two externally visible calls swapped; a once-guard or closed-flag check moved after the effect it guards. Work quickly: aim to finish within about 15 minutes. Do not use `git stash` (the worktrees share one stash).', '8': 'Do not use `git stash` (the worktrees share one stash).', '7': 'Both changes go INSIDE functions named in the anchors (different functions for the two). Avoid the plain operator flip; aim for the mistakes that type-check and read naturally: an integer conversion that truncates or wraps (uint16 / int32 / int), a unit confusion (seconds vs nanoseconds, count vs index), a value copied where the code needs the shared object (or shared where it needs a copy), slice or map aliasing, a read of a field before it is updated (stale read) or after it is reset, two effects performed in the other order, a defer that now runs too late, a retry or loop bound that is off by one, a fallback default taken when the value is legitimately zero, a comparison against the wrong one of two similar fields (start vs end, current vs persisted, old vs new), an error path that returns early and skips a required side effect. Do not use `git stash` (the worktrees share one stash).', '6': 'Make each change SMALL (one to eight changed lines). One of the two must be inside a function named in the anchors; the other must NOT be in an anchored function but in code the property also depends on: constructors and wiring (New..., dcp.go Start/close and the listeners registered there), the metadata backends, membership implementations, rollback-mitigation plumbing (reset, observe and its completion callback, markAbsentInstances, observeVbID), checkpoint scheduling and the Commit path, connection/config helpers, HTTP client, small predicates and getters that the anchored code calls. Think about what a reviewer would wave through: a boundary that is right except for one value, an error that is logged instead of returned (or the reverse), a field copied from the wrong sibling object, a guard that is one state too wide, a counter or flag updated on one path only, work skipped as an optimisation when it looks redundant, a default applied where an explicit zero was meant. Do not use `git stash` (the worktrees share one stash).', '5': 'Make each change SMALL (one to five changed lines) and of a kind that slips through code review: a value computed from the wrong variable of the same type, a stale copy used after an update, a default/zero value mishandled, an early return added or removed on an error path, an off-by-one at a boundary, a condition that is right for the common case and wrong for a rare combination of flags/config values, state updated on one branch but not on its sibling, a defer/cleanup that runs in the wrong order. One of the two must NOT be in a function named in the anchors but in code the anchored functions rely on or that relies on them (callers, constructors, helpers, interface implementations, the root package). Do not use `git stash` (the worktrees share one stash).', '4': 'Disguise each change as an IMPROVEMENT a maintainer would welcome: a performance optimisation (caching, batching, pooling, avoiding an allocation or a lock), a robustness fix (an added retry, timeout, nil check, recover, back-off), an API clean-up, or support for a new corner case - whose side effect breaks the property. Do not use `git stash` (the worktrees share one stash).', '1': '', '2': 'The two changes for a property must be in DIFFERENT functions, and at least one of them should be away from the most obvious line for that property: look at the helper functions, constructors, configuration plumbing, wrappers, the root package (dcp.go) and the less central anchors that the property also depends on.', '3': 'Look for places where the property depends on TWO pieces of code agreeing (a writer and a reader, a flag and its consumer, a constructor and a method) and break the agreement on one side only.'}[rnd]
tail = '''
For each mutant write, in the property's output directory, a sub-directory {a}/ and {b}/ containing:
 - patch.diff : `git diff` of the change against the worktree's HEAD (only library source files, NOT the demonstration test). It must apply with `git apply` to a clean checkout.
 - a demonstration: an in-package Go test file (e.g. demo_test.go; give the path it must be placed at in meta.json) that FAILS with the change applied and PASSES without it. In-package tests may construct unexported structs directly with small fakes for interfaces and function fields. For code that talks to gocbcore agents directly it is acceptable to drive the nearest unexported helper, or to use small in-test fake servers on loopback; say clearly in meta.json what real code the demo exercises. Keep it self-contained, fast (<15 s) and deterministic (if it depends on a schedule, force that schedule in the test).
 - meta.json : {{"property": "Cxx", "what_breaks": "...", "needs_to_manifest": "...", "demo_test_path": "path/inside/repo/demo_test.go", "demo_run": "go test -vet=off -count=1 -run TestName ./pkg/", "files_changed": [...], "demo_exercises": "..."}}

Verify everything yourself: with the patch applied `go build ./...` succeeds, `go test -vet=off -count=1 ./...` passes (without the demo test present), the demo fails; with the patch reverted the demo passes. Leave each worktree clean at the end (git checkout -- . ; remove the demo file) — all results live in the out- directories. Do not commit anything.

Report back a short table: property, mutant, one-line description, verified (yes/no).'''
ids = sorted(props)
batches = [ids[i:i + 4] for i in range(0, len(ids), 4)]
os.makedirs('/tmp/seed', exist_ok=True)
for x in ids:
    wt = '/tmp/seed/' + x
    if not os.path.isdir(wt):
        subprocess.check_call(['git', '-C', '/repo', 'worktree', 'add', '-q', '--detach', wt, 'HEAD'])
        hidden = glob.glob(wt + '/**/verif_contracts*.go', recursive=True)
        rel = [os.path.relpath(h, wt) for h in hidden]
        subprocess.check_call(['git', '-C', wt, 'update-index', '--skip-worktree'] + rel)
        for h in hidden:
            os.remove(h)
    os.makedirs('/tmp/seed/out-' + x, exist_ok=True)
for i, b in enumerate(batches):
    s = head.format(wts=', '.join('/tmp/seed/' + x for x in b), outs=', '.join('/tmp/seed/out-' + x for x in b), extra=extra)
    for x in b:
        p = props[x]
        s += f"\n--- {x} ---\n{p['title']}. {p['statement']}\n(Quantified over: {p['quantifier']['text']})\n(Anchors: {', '.join(m['where'] for m in p['anchors']['mechanism'])})\n"
    s += tail.format(a=names[0], b=names[1])
    open(f'/tmp/seed/prompt{i}.txt', 'w').write(s)
print(len(batches), 'prompts')
