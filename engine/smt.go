package main

// SMT-LIB query assembly and solver racing.

import (
	"math/big"
	"bytes"
	"context"
	"fmt"
	"os"
	"os/exec"
	"path/filepath"
	"regexp"
	"sort"
	"strings"
	"sync"
	"time"
)

var ufSigs = map[string]string{
	"sl.arr": "(Int) Int", "sl.off": "(Int) Int", "sl.len": "(Int) Int", "sl.cap": "(Int) Int", "str.lastindex": "(Int Int) Int", "str.index": "(Int Int) Int", "mk.slice": "(Int Int Int) Int",
	"if.tag": "(Int) Int", "if.ref": "(Int) Int", "mk.iface": "(Int Int) Int", "clo.fn": "(Int) Int",
	"card": "((Array Int Bool)) Int", "card.wit": "((Array Int Bool)) Int", "str.concat": "(Int Int) Int", "str.hasprefix": "(Int Int) Bool",
	"str.ofbytes": "(Int) Int", "bytes.ofstr": "(Int) Int", "str.len": "(Int) Int",
}
var ufMu sync.Mutex

// UF builds an application of an uninterpreted function and registers its signature.
func UF(ret, name string, args ...Term) Term {
	var as []string
	for _, a := range args {
		as = append(as, a.Sort)
	}
	sig := "(" + strings.Join(as, " ") + ") " + ret
	ufMu.Lock()
	if old, ok := ufSigs[name]; ok && old != sig {
		ufMu.Unlock()
		panic(unsupported{fmt.Sprintf("uninterpreted function %s used with signatures %s and %s", name, old, sig)})
	}
	ufSigs[name] = sig
	ufMu.Unlock()
	if len(args) == 0 {
		return Term{name, ret} // a constant
	}
	return app(ret, name, args...)
}

var symRe = regexp.MustCompile(`[A-Za-z_$][A-Za-z0-9_.!$@]*`)

var smtBuiltins = map[string]bool{"select": true, "store": true, "ite": true, "and": true, "or": true, "not": true, "div": true, "mod": true,
	"forall": true, "exists": true, "distinct": true, "as": true, "const": true, "Array": true, "Int": true, "Bool": true, "true": true, "false": true, "let": true, "abs": true}

type Verdict int

const (
	VUnknown Verdict = iota
	VUnsat
	VSat
)

func (v Verdict) String() string {
	switch v {
	case VUnsat:
		return "unsat"
	case VSat:
		return "sat"
	}
	return "unknown"
}

type QResult struct {
	Verdict Verdict
	Solver  string
	Ms      int64
	Model   string
	Output  string
}

func (q *Query) Text(withModel bool) string {
	var b strings.Builder
	b.WriteString("(set-option :produce-models true)\n(set-logic ALL)\n")
	var body strings.Builder
	for _, a := range q.Assume {
		if q.ExpectSat && strings.Contains(a.S, "(forall ") {
			continue // reachability checks are done modulo quantified assumptions
		}
		body.WriteString("(assert ")
		body.WriteString(a.S)
		body.WriteString(")\n")
	}
	body.WriteString("(assert (not ")
	body.WriteString(q.Goal.S)
	body.WriteString("))\n")
	text := body.String()
	used := map[string]bool{}
	for _, s := range symRe.FindAllString(text, -1) {
		used[s] = true
	}
	// axioms, added when their symbols occur
	var axioms []string
	if used["sl.len"] {
		axioms = append(axioms, "(assert (forall ((s Int)) (>= (sl.len s) 0)))", "(assert (= (sl.len 0) 0))")
	}
	if used["card"] {
		axioms = append(axioms, "(assert (forall ((a (Array Int Bool))) (>= (card a) 0)))",
			"(assert (forall ((a (Array Int Bool)) (k Int)) (! (=> (= (card a) 0) (not (select a k))) :pattern ((card a) (select a k)))))",
			// a set that is not empty has a member (card.wit names one)
			"(assert (forall ((a (Array Int Bool))) (! (or (= (card a) 0) (select a (card.wit a))) :pattern ((card a)))))")
	}
	if used["str.hasprefix"] {
		axioms = append(axioms, "(assert (forall ((a Int)) (str.hasprefix a a)))")
		if used["str.concat"] {
			axioms = append(axioms,
				"(assert (forall ((a Int) (b Int)) (str.hasprefix (str.concat a b) a)))",
				"(assert (forall ((a Int) (b Int) (p Int)) (=> (str.hasprefix a p) (str.hasprefix (str.concat a b) p))))")
		}
	}
	if used["str.ofbytes"] && used["bytes.ofstr"] {
		axioms = append(axioms, "(assert (forall ((s Int)) (= (str.ofbytes (bytes.ofstr s)) s)))")
	}
	if used["str.split.arr"] {
		// a piece of a split contains no separator: splitting it again by the same separator gives the piece itself
		axioms = append(axioms,
			"(assert (forall ((s Int) (sep Int) (i Int)) (! (=> (and (<= 0 i) (< i (str.split.len s sep))) (and (= (str.split.len (select (str.split.arr s sep) i) sep) 1) (= (select (str.split.arr (select (str.split.arr s sep) i) sep) 0) (select (str.split.arr s sep) i)))) :pattern ((str.split.arr (select (str.split.arr s sep) i) sep)))))")
	}
	if used["time.nonzero"] {
		ufMu.Lock()
		sig, ok := ufSigs["time.nonzero"]
		ufMu.Unlock()
		if ok {
			n := strings.Count(strings.SplitN(sig, ")", 2)[0], "Int")
			axioms = append(axioms, "(assert (not (time.nonzero"+strings.Repeat(" 0", n)+")))")
		}
	}
	if used["f64.mul"] {
		// multiplying a float by powers of two is exact (no rounding; overflow gives +-Inf either way):
		// (x*2^a)*2^b == x*2^(a+b) and x*1 == x, for the power-of-two literals that occur
		var pows []*big.Int
		for s := range used {
			if strings.HasPrefix(s, "f64.lit.") {
				if n, ok := new(big.Int).SetString(s[len("f64.lit."):], 10); ok && n.Sign() > 0 && n.BitLen() <= 62 && new(big.Int).And(n, new(big.Int).Sub(n, big.NewInt(1))).Sign() == 0 {
					pows = append(pows, n)
				}
			}
		}
		// close under products (bounded by 2^62)
		for round := 0; round < 4; round++ {
			seen := map[string]bool{}
			for _, p := range pows {
				seen[p.String()] = true
			}
			n := len(pows)
			for i := 0; i < n; i++ {
				for j := i; j < n; j++ {
					p := new(big.Int).Mul(pows[i], pows[j])
					if p.BitLen() <= 62 && !seen[p.String()] {
						seen[p.String()] = true
						pows = append(pows, p)
					}
				}
			}
		}
		sort.Slice(pows, func(i, j int) bool { return pows[i].Cmp(pows[j]) < 0 })
		for _, a := range pows {
			if a.Cmp(big.NewInt(1)) == 0 {
				axioms = append(axioms, "(assert (forall ((x Int)) (= (f64.mul x f64.lit.1) x)))")
				continue
			}
			for _, c := range pows {
				p := new(big.Int).Mul(a, c)
				if c.Cmp(big.NewInt(1)) == 0 || p.BitLen() > 62 {
					continue
				}
				axioms = append(axioms, fmt.Sprintf("(assert (forall ((x Int)) (= (f64.mul (f64.mul x f64.lit.%s) f64.lit.%s) (f64.mul x f64.lit.%s))))", a, c, p))
			}
		}
	}
	if q.ExpectSat {
		axioms = nil
	}
	cgAx, cgDecl := constGlobalAxioms(used)
	axioms = append(axioms, cgAx...)
	for _, ax := range axioms {
		for _, s := range symRe.FindAllString(ax, -1) {
			used[s] = true
		}
	}
	var names []string
	for s := range used {
		names = append(names, s)
	}
	sort.Strings(names)
	ufMu.Lock()
	for _, n := range names {
		if smtBuiltins[n] {
			continue
		}
		if sig, ok := ufSigs[n]; ok {
			fmt.Fprintf(&b, "(declare-fun %s %s)\n", n, sig)
			continue
		}
		if q.Decls != nil {
			if sort, ok := q.Decls[n]; ok {
				if strings.HasPrefix(sort, "fun:") {
					fmt.Fprintf(&b, "(declare-fun %s %s)\n", n, sort[4:])
				} else {
					fmt.Fprintf(&b, "(declare-const %s %s)\n", n, sort)
				}
				continue
			}
		}
		isCG := false
		for _, d := range cgDecl {
			if d == n {
				isCG = true
			}
		}
		if isCG {
			fmt.Fprintf(&b, "(declare-const %s Int)\n", n)
			continue
		}
		if strings.HasPrefix(n, "f64.lit.") {
			fmt.Fprintf(&b, "(declare-const %s Int)\n", n) // introduced by a float axiom
		}
	}
	ufMu.Unlock()
	for _, ax := range axioms {
		b.WriteString(ax)
		b.WriteString("\n")
	}
	b.WriteString(text)
	b.WriteString("(check-sat)\n")
	if withModel {
		b.WriteString("(get-model)\n")
	}
	return b.String()
}

// Pruned returns a copy of the query without the quantified assumptions that
// share no symbol with the goal's cone of influence (computed over the
// quantifier-free assumptions). Dropping assumptions is sound.
func (q *Query) Pruned() *Query {
	syms := func(s string) []string { return symRe.FindAllString(s, -1) }
	rel := map[string]bool{}
	for _, s := range syms(q.Goal.S) {
		rel[s] = true
	}
	type as struct {
		t    Term
		syms []string
		q    bool
	}
	var list []as
	for _, a := range q.Assume {
		list = append(list, as{a, syms(a.S), strings.Contains(a.S, "(forall ") || strings.Contains(a.S, "(exists ")})
	}
	generic := func(s string) bool {
		return smtBuiltins[s] || strings.HasPrefix(s, "wm") || strings.HasPrefix(s, "q.")
	}
	for changed := true; changed; {
		changed = false
		for _, a := range list {
			if a.q {
				continue
			}
			hit := false
			for _, s := range a.syms {
				if rel[s] && !generic(s) {
					hit = true
					break
				}
			}
			if hit {
				for _, s := range a.syms {
					if !rel[s] {
						rel[s] = true
						changed = true
					}
				}
			}
		}
	}
	n := &Query{Name: q.Name, Detail: q.Detail, Goal: q.Goal, Decls: q.Decls, ExpectSat: q.ExpectSat}
	for _, a := range list {
		if !a.q {
			n.Assume = append(n.Assume, a.t)
			continue
		}
		for _, s := range a.syms {
			if rel[s] && !generic(s) {
				n.Assume = append(n.Assume, a.t)
				break
			}
		}
	}
	return n
}

type solverSpec struct {
	name string
	argv func(file string, secs int, seed int) []string
}

var solvers = []solverSpec{
	{"z3-new", func(f string, t, seed int) []string {
		return []string{"z3-new", fmt.Sprintf("-T:%d", t), fmt.Sprintf("smt.random_seed=%d", seed), fmt.Sprintf("sat.random_seed=%d", seed), f}
	}},
	{"z3-new-ematch", func(f string, t, seed int) []string {
		// E-matching only (no model-based quantifier instantiation): fast on VCs whose triggers are explicit in the terms
		return []string{"z3-new", fmt.Sprintf("-T:%d", t), "smt.mbqi=false", "smt.auto_config=false", fmt.Sprintf("smt.random_seed=%d", seed), f}
	}},
	{"cvc5", func(f string, t, seed int) []string {
		return []string{"cvc5", fmt.Sprintf("--tlimit=%d", t*1000), fmt.Sprintf("--seed=%d", seed), "--produce-models", f}
	}},
	{"z3", func(f string, t, seed int) []string {
		return []string{"z3", fmt.Sprintf("-T:%d", t), fmt.Sprintf("smt.random_seed=%d", seed), f}
	}},
}

func runSolver(sp solverSpec, file string, secs, seed int) QResult {
	argv := sp.argv(file, secs, seed)
	ctx, cancel := context.WithTimeout(context.Background(), time.Duration(secs+2)*time.Second)
	defer cancel()
	cmd := exec.CommandContext(ctx, argv[0], argv[1:]...)
	var out bytes.Buffer
	cmd.Stdout = &out
	cmd.Stderr = &out
	start := time.Now()
	_ = cmd.Run()
	ms := time.Since(start).Milliseconds()
	text := out.String()
	first := strings.TrimSpace(strings.SplitN(text, "\n", 2)[0])
	r := QResult{Solver: sp.name, Ms: ms, Output: text}
	switch first {
	case "unsat":
		r.Verdict = VUnsat
	case "sat":
		r.Verdict = VSat
		if i := strings.Index(text, "\n"); i >= 0 {
			r.Model = text[i+1:]
		}
	}
	return r
}

// Solve runs the query: z3-new first, the other solvers if it is undecided.
// In cross mode all three are run and disagreements reported.
func Solve(q *Query, tmpDir string, secs, seed int, cross bool) (QResult, []QResult) {
	if q.Goal.S == "true" && !q.ExpectSat {
		return QResult{Verdict: VUnsat, Solver: "trivial"}, nil
	}
	f, err := os.CreateTemp(tmpDir, "q*.smt2")
	if err != nil {
		return QResult{Output: err.Error()}, nil
	}
	file := f.Name()
	f.WriteString(q.Text(true))
	f.Close()
	defer os.Remove(file)
	var all []QResult
	if cross {
		var wg sync.WaitGroup
		all = make([]QResult, len(solvers))
		for i, sp := range solvers {
			wg.Add(1)
			go func(i int, sp solverSpec) {
				defer wg.Done()
				all[i] = runSolver(sp, file, secs, seed)
			}(i, sp)
		}
		wg.Wait()
		for _, r := range all {
			if r.Verdict != VUnknown {
				return r, all
			}
		}
		return all[0], all
	}
	first := secs / 2
	if first < 2 {
		first = 2
	}
	// stage 1: z3-new with its default configuration and with E-matching only, side by side
	c1 := make(chan QResult, 2)
	for _, sp := range solvers[:2] {
		go func(sp solverSpec) { c1 <- runSolver(sp, file, first, seed) }(sp)
	}
	var r QResult
	for i := 0; i < 2; i++ {
		rr := <-c1
		all = append(all, rr)
		if rr.Verdict == VUnsat || (rr.Verdict == VSat && rr.Solver == "z3-new") {
			return rr, all
		}
		if rr.Solver == "z3-new" {
			r = rr
		}
	}
	ch := make(chan QResult, len(solvers)-1)
	for _, sp := range solvers[1:] {
		go func(sp solverSpec) { ch <- runSolver(sp, file, secs, seed) }(sp)
	}
	var best QResult
	for i := 0; i < len(solvers)-1; i++ {
		rr := <-ch
		all = append(all, rr)
		if rr.Verdict != VUnknown && best.Verdict == VUnknown {
			best = rr
		}
	}
	if best.Verdict != VUnknown {
		return best, all
	}
	return r, all
}

// ---------- obligations (aggregated over path instances) ----------

type Obligation struct {
	Name      string
	ExpectSat bool
	Instances []*Query
	Results   []QResult
	Status    string // discharged, failed, undecided
	Ms        int64
	MaxMs     int64 // slowest single query
	Backend   string
	FailIdx   int
}

func groupQueries(qs []*Query) []*Obligation {
	m := map[string]*Obligation{}
	var order []string
	for _, q := range qs {
		o, ok := m[q.Name]
		if !ok {
			o = &Obligation{Name: q.Name, ExpectSat: q.ExpectSat}
			m[q.Name] = o
			order = append(order, q.Name)
		}
		o.Instances = append(o.Instances, q)
	}
	var out []*Obligation
	for _, n := range order {
		out = append(out, m[n])
	}
	return out
}

func solveAll(obls []*Obligation, secs, seed int, cross bool, workers int) {
	tmp := filepath.Join(os.TempDir(), fmt.Sprintf("govc-%d", os.Getpid()))
	os.MkdirAll(tmp, 0o755)
	defer os.RemoveAll(tmp)
	type job struct {
		o *Obligation
		i int
	}
	var jobs []job
	for _, o := range obls {
		o.Results = make([]QResult, len(o.Instances))
		for i := range o.Instances {
			jobs = append(jobs, job{o, i})
		}
	}
	ch := make(chan job)
	var wg sync.WaitGroup
	for w := 0; w < workers; w++ {
		wg.Add(1)
		go func() {
			defer wg.Done()
			for j := range ch {
				r, _ := Solve(j.o.Instances[j.i], tmp, secs, seed, cross)
				if r.Verdict == VUnknown && !j.o.ExpectSat {
					// retry without the quantified assumptions outside the goal's cone of influence
					p := j.o.Instances[j.i].Pruned()
					if len(p.Assume) < len(j.o.Instances[j.i].Assume) {
						if pr, _ := Solve(p, tmp, secs, seed, false); pr.Verdict == VUnsat {
							pr.Solver += "+pruned"
							r = pr
						}
					}
				}
				if r.Verdict == VUnknown && !j.o.ExpectSat {
					// one retry with a longer budget
					r, _ = Solve(j.o.Instances[j.i], tmp, secs*6, seed, true)
				}
				j.o.Results[j.i] = r
			}
		}()
	}
	for _, j := range jobs {
		ch <- j
	}
	close(ch)
	wg.Wait()
	for _, o := range obls {
		backs := map[string]bool{}
		if o.ExpectSat {
			o.Status = "failed"
			for i, r := range o.Results {
				o.Ms += r.Ms
				if r.Ms > o.MaxMs {
					o.MaxMs = r.Ms
				}
				if r.Verdict == VSat {
					o.Status = "discharged"
					backs[r.Solver] = true
					_ = i
				}
			}
			if o.Status == "failed" {
				for _, r := range o.Results {
					if r.Verdict == VUnknown {
						o.Status = "undecided"
					}
				}
			}
		} else {
			o.Status = "discharged"
			o.FailIdx = -1
			for i, r := range o.Results {
				o.Ms += r.Ms
				if r.Ms > o.MaxMs {
					o.MaxMs = r.Ms
				}
				backs[r.Solver] = true
				switch r.Verdict {
				case VSat:
					o.Status = "failed"
					if o.FailIdx < 0 || o.Results[o.FailIdx].Verdict != VSat {
						o.FailIdx = i
					}
				case VUnknown:
					if o.Status == "discharged" {
						o.Status = "undecided"
						o.FailIdx = i
					}
				}
			}
		}
		var bl []string
		for b := range backs {
			bl = append(bl, b)
		}
		sort.Strings(bl)
		o.Backend = strings.Join(bl, ",")
	}
}
