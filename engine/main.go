package main

import (
	"go/types"
	"golang.org/x/tools/go/ssa"
	"flag"
	"fmt"
	"os"
	"sort"
	"strings"
	"time"
)

func main() {
	if len(os.Args) < 2 {
		fmt.Fprintln(os.Stderr, "usage: govc <verify|check|selftest> ...")
		os.Exit(2)
	}
	switch os.Args[1] {
	case "verify":
		cmdVerify(os.Args[2:])
	case "check":
		cmdCheck(os.Args[2:])
	case "params":
		// govc params <pkgs>: contract key -> SSA parameter names (receiver first), for tools/add_params.py
		eng := NewEngine("/repo")
		if err := eng.Load(strings.Split(os.Args[2], ",")); err != nil {
			fmt.Println(err)
			os.Exit(2)
		}
		var ks []string
		for k, c := range eng.contracts {
			if c.Kind == "func" {
				ks = append(ks, k)
			}
		}
		sort.Strings(ks)
		for _, k := range ks {
			fn := eng.funcs[k]
			if fn == nil {
				continue
			}
			var ns []string
			for _, p := range fn.Params {
				n := p.Name()
				if n == "" || n == "_" {
					n = "_"
				}
				ns = append(ns, n)
			}
			var fv []string
			for _, v := range fn.FreeVars {
				fv = append(fv, v.Name())
			}
			fmt.Printf("%s\t%s\t%s\t%s\n", eng.contracts[k].File, eng.contracts[k].Key, strings.Join(ns, " "), strings.Join(fv, " "))
		}
	case "writers":
		// govc writers <pkgs> <type substring>: which functions store to which fields (developer aid for frame scans)
		eng := NewEngine("/repo")
		if err := eng.Load(strings.Split(os.Args[2], ",")); err != nil {
			fmt.Println(err)
			os.Exit(2)
		}
		w := map[string]map[string]bool{}
		for _, f := range eng.allRepoFuncs() {
			for _, b := range f.Blocks {
				for _, in := range b.Instrs {
					st, ok := in.(*ssa.Store)
					if !ok {
						continue
					}
					fa, ok := st.Addr.(*ssa.FieldAddr)
					if !ok {
						continue
					}
					root := fa.X.Type().(*types.Pointer).Elem()
					k := typeName(root) + "." + fieldNameAt(root, []int{fa.Field})
					if len(os.Args) > 3 && !strings.Contains(k, os.Args[3]) {
						continue
					}
					if w[k] == nil {
						w[k] = map[string]bool{}
					}
					w[k][funcKey(f)] = true
				}
			}
		}
		var ks []string
		for k := range w {
			ks = append(ks, k)
		}
		sort.Strings(ks)
		for _, k := range ks {
			fmt.Println(k, setList(w[k]))
		}
	case "funcs":
		eng := NewEngine("/repo")
		if err := eng.Load(strings.Split(os.Args[2], ",")); err != nil {
			fmt.Println(err)
			os.Exit(2)
		}
		var ks []string
		for k := range eng.funcs {
			ks = append(ks, k)
		}
		sort.Strings(ks)
		for _, k := range ks {
			if len(os.Args) < 4 || strings.Contains(k, os.Args[3]) {
				fmt.Println(k)
			}
		}
		var cs []string
		for k := range eng.callSigs {
			cs = append(cs, k)
		}
		sort.Strings(cs)
		for _, k := range cs {
			if len(os.Args) >= 4 && strings.Contains(k, os.Args[3]) {
				fmt.Println("call:", k, eng.callSigs[k].names)
			}
		}
	default:
		fmt.Fprintln(os.Stderr, "unknown command", os.Args[1])
		os.Exit(2)
	}
}

// cmdVerify: developer command. govc verify -pkgs ./stream,./models [-func key] [-dump]
func cmdVerify(args []string) {
	fs := flag.NewFlagSet("verify", flag.ExitOnError)
	repo := fs.String("repo", "/repo", "repository")
	pk := fs.String("pkgs", "./...", "comma separated package patterns")
	only := fs.String("func", "", "substring filter on function keys")
	dump := fs.String("dump", "", "dump queries of obligations whose name contains this")
	secs := fs.Int("t", 10, "solver timeout")
	showAll := fs.Bool("v", false, "list every obligation")
	fs.Parse(args)
	eng := NewEngine(*repo)
	t0 := time.Now()
	if err := eng.Load(strings.Split(*pk, ",")); err != nil {
		fmt.Fprintln(os.Stderr, "load:", err)
		os.Exit(2)
	}
	fmt.Printf("loaded in %.1fs, %d contracts\n", time.Since(t0).Seconds(), len(eng.contracts))
	var keys []string
	for k, c := range eng.contracts {
		if c.Kind == "func" && !c.Trusted && !c.NoVerify && strings.Contains(k, *only) {
			keys = append(keys, k)
		}
	}
	sort.Strings(keys)
	bad := 0
	for _, k := range keys {
		fn := eng.funcs[k]
		if fn == nil {
			fmt.Printf("UNDECIDED %s: anchor missing\n", k)
			bad++
			continue
		}
		t1 := time.Now()
		res := eng.VerifyFunc(fn, eng.contracts[k])
		obls := groupQueries(res.Queries)
		solveAll(obls, *secs, 0, false, 16)
		nd, nf, nu := 0, 0, 0
		for _, o := range obls {
			switch o.Status {
			case "discharged":
				nd++
			case "failed":
				nf++
			default:
				nu++
			}
		}
		fmt.Printf("%-60s paths=%d obligations=%d discharged=%d failed=%d undecided=%d %.1fs %s\n", k, res.Paths, len(obls), nd, nf, nu, time.Since(t1).Seconds(), res.Undecided)
		for _, o := range obls {
			if o.Status != "discharged" || *showAll {
				fmt.Printf("    %-10s %s (%d instances, %dms, %s)\n", o.Status, o.Name, len(o.Instances), o.Ms, o.Backend)
				if o.Status != "discharged" && o.FailIdx >= 0 && o.FailIdx < len(o.Instances) {
					fmt.Printf("        %s\n", o.Instances[o.FailIdx].Detail)
					if o.Status == "undecided" {
						fmt.Printf("        solver: %s\n", truncate(strings.TrimSpace(o.Results[o.FailIdx].Output), 300))
					}
				}
				bad += b2i(o.Status != "discharged")
			}
			if *dump != "" && strings.Contains(o.Name, *dump) {
				for i, q := range o.Instances {
					fmt.Printf("---- %s instance %d: %s -> %s\n%s\n", o.Name, i, q.Detail, o.Results[i].Verdict, q.Text(true))
					if o.Results[i].Verdict == VSat {
						fmt.Println(o.Results[i].Model)
					}
				}
			}
		}
		if res.Undecided != "" {
			bad++
		}
	}
	if bad > 0 {
		os.Exit(1)
	}
}

func b2i(b bool) int {
	if b {
		return 1
	}
	return 0
}

