package main

// Symbolic values, heap components and the per-path state.

import (
	"fmt"
	"go/types"
	"hash/fnv"
	"sort"
	"strings"

	"golang.org/x/tools/go/ssa"
)

type Val interface{}

type StructVal struct {
	T types.Type
	F []Val
}

type TupleVal struct{ V []Val }

// PLocal points into a Go-side cell (a local variable that has not escaped).
type PLocal struct {
	Cell int
	Path []int
}

// PRef points into a heap object: Root is the (struct or scalar) type stored at
// Ref, Path selects a nested field of a struct root.
type PRef struct {
	Ref  Term
	Root types.Type
	Path []int
}

// PElem points to element Idx of backing array Arr (element type Elem), Path
// selects a field when Elem is a struct.
type PElem struct {
	Arr  Term
	Idx  Term
	Elem types.Type
	Path []int
}

type CloVal struct {
	Fn   *ssa.Function
	Bind []Val
}

type FuncVal struct{ Fn *ssa.Function }

type cell struct {
	T       types.Type
	V       Val
	spilled bool
	ref     Term
	name    string
}

type deferred struct {
	call *ssa.CallCommon
	fn   Val
	args []Val
	site ssa.Instruction
}

type Frame struct {
	fn        *ssa.Function
	regs      map[ssa.Value]Val
	named     map[string]int // local variable name -> latest cell id
	allNamed  map[string][]int
	prev      *ssa.BasicBlock
	cur       *ssa.BasicBlock
	defers    []deferred
	loopOn    map[int]*loopCtx // active cut loops by header index
	unrolled  map[int]int      // unroll counters by header index
	retBlock  *ssa.BasicBlock
	retIdx    int
	retInstr  ssa.Value
	onReturn  func(st *State, res Val, panicked bool)
	freeCells []Val // closure bindings
	depth     int
	contract  *Contract
	params    []Val // entry values
	rangeIter map[ssa.Value]*rangeState
	snaps     map[string]map[string]Term
	stops     []*stopRec // join blocks at which speculative branch execution stops (path merging)
}

type stopRec struct {
	at  *ssa.BasicBlock
	col *[]*State
}

type rangeState struct {
	m       Term // map ref
	visited Term // (Array Int Bool)
	ksort   string
	vtype   types.Type
	ktype   types.Type
	str     bool
	seq     int // order in which the range statements were started (the latest one belongs to the loop being cut)
}

type loopCtx struct {
	base    map[string]Term // heap at loop head (after havoc)
	entryWM Term
	wm      Term
	spec   *LoopSpec
	header int
}

func (f *Frame) clone() *Frame {
	g := *f
	g.regs = make(map[ssa.Value]Val, len(f.regs))
	for k, v := range f.regs {
		g.regs[k] = v
	}
	g.named = make(map[string]int, len(f.named))
	for k, v := range f.named {
		g.named[k] = v
	}
	g.allNamed = make(map[string][]int, len(f.allNamed))
	for k, v := range f.allNamed {
		g.allNamed[k] = append([]int(nil), v...)
	}
	g.defers = append([]deferred(nil), f.defers...)
	g.loopOn = make(map[int]*loopCtx, len(f.loopOn))
	for k, v := range f.loopOn {
		g.loopOn[k] = v
	}
	g.unrolled = make(map[int]int, len(f.unrolled))
	for k, v := range f.unrolled {
		g.unrolled[k] = v
	}
	g.snaps = make(map[string]map[string]Term, len(f.snaps))
	for k, v := range f.snaps {
		g.snaps[k] = v
	}
	g.stops = append([]*stopRec(nil), f.stops...)
	g.rangeIter = make(map[ssa.Value]*rangeState, len(f.rangeIter))
	for k, v := range f.rangeIter {
		c := *v
		g.rangeIter[k] = &c
	}
	return &g
}

type State struct {
	x      *Exec
	pc     []Term
	heap   map[string]Term
	cells  map[int]*cell
	frames []*Frame
	wm     Term // watermark: every ref allocated so far is <= wm
	nalloc int  // number of allocations since wm was last symbolic
	steps  int
	notes  []string
}

func (st *State) clone() *State {
	n := &State{x: st.x, wm: st.wm, nalloc: st.nalloc, steps: st.steps}
	n.pc = append([]Term(nil), st.pc...)
	n.heap = make(map[string]Term, len(st.heap))
	for k, v := range st.heap {
		n.heap[k] = v
	}
	n.cells = make(map[int]*cell, len(st.cells))
	for k, v := range st.cells {
		c := *v
		n.cells[k] = &c
	}
	for _, f := range st.frames {
		n.frames = append(n.frames, f.clone())
	}
	n.notes = append([]string(nil), st.notes...)
	return n
}

func (st *State) top() *Frame { return st.frames[len(st.frames)-1] }

func (st *State) assume(t Term) {
	if t.S == "true" {
		return
	}
	st.pc = append(st.pc, t)
}

func (st *State) snapshot() map[string]Term {
	m := make(map[string]Term, len(st.heap))
	for k, v := range st.heap {
		m[k] = v
	}
	return m
}

// ---------- unsupported ----------

type unsupported struct{ msg string }

func unsup(f string, a ...interface{}) { panic(unsupported{fmt.Sprintf(f, a...)}) }

// ---------- type helpers ----------

func under(t types.Type) types.Type {
	for {
		u := t.Underlying()
		if u == t {
			return t
		}
		t = u
	}
}

func isStruct(t types.Type) bool {
	_, ok := under(t).(*types.Struct)
	return ok
}

func typeName(t types.Type) string {
	switch x := t.(type) {
	case *types.Named:
		s := ""
		if x.Obj().Pkg() != nil {
			s = x.Obj().Pkg().Name() + "."
		}
		s += x.Obj().Name()
		if ta := x.TypeArgs(); ta != nil && ta.Len() > 0 {
			var parts []string
			for i := 0; i < ta.Len(); i++ {
				parts = append(parts, typeName(ta.At(i)))
			}
			s += "_of_" + strings.Join(parts, "_")
		}
		return s
	case *types.Alias:
		return typeName(types.Unalias(x))
	case *types.Pointer:
		return "ptr." + typeName(x.Elem())
	case *types.Basic:
		return x.Name()
	case *types.Slice:
		return "slice." + typeName(x.Elem())
	case *types.TypeParam:
		return "tp." + x.Obj().Name()
	case *types.Struct:
		h := fnv.New32a()
		h.Write([]byte(x.String()))
		return fmt.Sprintf("struct%x", h.Sum32())
	case *types.Interface:
		if x.NumMethods() == 0 {
			return "any"
		}
		h := fnv.New32a()
		h.Write([]byte(x.String()))
		return fmt.Sprintf("iface%x", h.Sum32())
	}
	return sanitize(t.String())
}

// sortOf returns the SMT sort of a scalar Go type ("" for composite types).
func sortOf(t types.Type) string {
	switch x := under(types.Unalias(t)).(type) {
	case *types.Basic:
		if x.Info()&types.IsBoolean != 0 {
			return SB
		}
		return SI
	case *types.Struct, *types.Tuple, *types.Array:
		return ""
	}
	return SI
}

func isCSMap(t types.Type) (k, v types.Type, ok bool) {
	if p, isP := types.Unalias(t).(*types.Pointer); isP {
		t = p.Elem()
	}
	n, isN := types.Unalias(t).(*types.Named)
	if !isN || n.Obj().Name() != "ConcurrentSwissMap" || n.Obj().Pkg() == nil || !strings.HasSuffix(n.Obj().Pkg().Path(), "/wrapper") {
		return nil, nil, false
	}
	ta := n.TypeArgs()
	if ta == nil || ta.Len() != 2 {
		return nil, nil, false
	}
	return ta.At(0), ta.At(1), true
}

// mapKV returns key and value type for Go maps and *ConcurrentSwissMap.
func mapKV(t types.Type) (k, v types.Type, ok bool) {
	if m, isM := under(types.Unalias(t)).(*types.Map); isM {
		return m.Key(), m.Elem(), true
	}
	return isCSMap(t)
}

type leaf struct {
	path []int
	name string
	typ  types.Type
}

// leaves flattens a struct type into its scalar leaf fields (nested struct
// values are flattened, pointers are leaves).
func leaves(t types.Type) []leaf {
	var out []leaf
	var rec func(t types.Type, path []int, name string)
	rec = func(t types.Type, path []int, name string) {
		s, ok := under(types.Unalias(t)).(*types.Struct)
		if !ok {
			out = append(out, leaf{append([]int(nil), path...), name, t})
			return
		}
		for i := 0; i < s.NumFields(); i++ {
			f := s.Field(i)
			n := f.Name()
			if name != "" {
				n = name + "." + n
			}
			if _, isArr := under(f.Type()).(*types.Array); isArr {
				continue // arrays by value are not modelled
			}
			rec(f.Type(), append(path, i), n)
		}
	}
	rec(t, nil, "")
	return out
}

func fieldTypeAt(t types.Type, path []int) types.Type {
	for _, i := range path {
		s := under(types.Unalias(t)).(*types.Struct)
		t = s.Field(i).Type()
	}
	return t
}

func fieldNameAt(t types.Type, path []int) string {
	var parts []string
	for _, i := range path {
		s := under(types.Unalias(t)).(*types.Struct)
		parts = append(parts, s.Field(i).Name())
		t = s.Field(i).Type()
	}
	return strings.Join(parts, ".")
}

func fieldComp(root types.Type, path []int) string {
	return "F!" + typeName(root) + "!" + fieldNameAt(root, path)
}

func intRange(t types.Type) (lo, hi string, ok bool) {
	b, isB := under(types.Unalias(t)).(*types.Basic)
	if !isB {
		return "", "", false
	}
	switch b.Kind() {
	case types.Int8:
		return "(- 128)", "127", true
	case types.Int16:
		return "(- 32768)", "32767", true
	case types.Int32:
		return "(- 2147483648)", "2147483647", true
	case types.Int, types.Int64:
		return "(- 9223372036854775808)", "9223372036854775807", true
	case types.Uint8:
		return "0", "255", true
	case types.Uint16:
		return "0", "65535", true
	case types.Uint32:
		return "0", "4294967295", true
	case types.Uint, types.Uint64, types.Uintptr:
		return "0", "18446744073709551615", true
	}
	return "", "", false
}

func isRefLike(t types.Type) bool {
	switch under(types.Unalias(t)).(type) {
	case *types.Pointer, *types.Map, *types.Chan:
		return true
	}
	return false
}

// typeConstraint returns the assumption that term v is a valid value of type t.
func (st *State) typeConstraint(v Term, t types.Type) Term {
	if lo, hi, ok := intRange(t); ok {
		return And(Le(Term{lo, SI}, v), Le(v, Term{hi, SI}))
	}
	if isRefLike(t) {
		return And(Le(TInt(0), v), Le(v, st.wmNow()))
	}
	if n, ok := types.Unalias(t).(*types.Named); ok && n.Obj().Name() == "Context" && n.Obj().Pkg() != nil && n.Obj().Pkg().Path() == "context" {
		// a context that exists now has a Done channel that exists now
		d := UF(SI, "ctx.done", v)
		return Imp(Neq(v, TInt(0)), And(Lt(TInt(0), d), Le(d, st.wmNow())))
	}
	if _, ok := under(types.Unalias(t)).(*types.Slice); ok {
		return And(Le(TInt(0), slArr(v)), Le(slArr(v), st.wmNow()), Le(TInt(0), slOff(v)), Le(TInt(0), slLen(v)), Le(Add(slOff(v), slLen(v)), Term{"9223372036854775807", SI}))
	}
	return TTrue
}

// ---------- fresh symbols ----------

func (st *State) fresh(prefix, sort string) Term {
	return st.x.fresh(prefix, sort)
}

func (st *State) freshTyped(prefix string, t types.Type) Term {
	v := st.fresh(prefix, sortOf(t))
	st.assume(st.typeConstraint(v, t))
	return v
}

// freshVal builds a fully symbolic value of type t.
func (st *State) freshVal(prefix string, t types.Type) Val {
	if isStruct(t) {
		sv := &StructVal{T: t}
		s := under(types.Unalias(t)).(*types.Struct)
		for i := 0; i < s.NumFields(); i++ {
			f := s.Field(i)
			if _, isArr := under(f.Type()).(*types.Array); isArr {
				sv.F = append(sv.F, nil)
				continue
			}
			sv.F = append(sv.F, st.freshVal(prefix+"."+f.Name(), f.Type()))
		}
		return sv
	}
	if tup, ok := t.(*types.Tuple); ok {
		tv := &TupleVal{}
		for i := 0; i < tup.Len(); i++ {
			tv.V = append(tv.V, st.freshVal(fmt.Sprintf("%s.%d", prefix, i), tup.At(i).Type()))
		}
		return tv
	}
	if _, isArr := under(t).(*types.Array); isArr {
		unsup("array value of type %s", t)
	}
	return st.freshTyped(prefix, t)
}

func zeroVal(t types.Type) Val {
	if isStruct(t) {
		sv := &StructVal{T: t}
		s := under(types.Unalias(t)).(*types.Struct)
		for i := 0; i < s.NumFields(); i++ {
			if _, isArr := under(s.Field(i).Type()).(*types.Array); isArr {
				sv.F = append(sv.F, nil)
				continue
			}
			sv.F = append(sv.F, zeroVal(s.Field(i).Type()))
		}
		return sv
	}
	if sortOf(t) == SB {
		return TFalse
	}
	return TInt(0)
}

// ---------- watermark / allocation ----------

func (st *State) wmNow() Term {
	if st.nalloc == 0 {
		return st.wm
	}
	return Add(st.wm, TInt(int64(st.nalloc)))
}

// allocRef returns a ref distinct from every ref allocated or reachable before.
func (st *State) allocRef() Term {
	st.nalloc++
	return Add(st.wm, TInt(int64(st.nalloc)))
}

// bumpWM models an external call that may allocate.
func (st *State) bumpWM() {
	n := st.fresh("wm", SI)
	st.assume(Ge(n, st.wmNow()))
	st.wm = n
	st.nalloc = 0
}

// ---------- heap components ----------

func (st *State) comp(name, sort string) Term {
	if t, ok := st.heap[name]; ok {
		return t
	}
	t := st.x.declare(name+"@0", sort)
	st.heap[name] = t
	return t
}

func (st *State) setComp(name string, v Term) {
	n := st.x.freshNamed(name, v.Sort)
	st.assume(Eq(n, v))
	st.heap[name] = n
}

func (st *State) havocComp(name, sort string) Term {
	n := st.x.freshNamed(name, sort)
	st.heap[name] = n
	return n
}

func cellComp(sort string) string { return "C!" + sort }

func elemComp(elem types.Type, path []int) (string, string) {
	if isStruct(elem) {
		ft := fieldTypeAt(elem, path)
		return "E!" + typeName(elem) + "!" + fieldNameAt(elem, path), sortOf(ft)
	}
	// one component per element type: arrays of different Go types cannot alias
	s := sortOf(elem)
	return "E!" + typeName(types.Unalias(elem)), s
}

func (st *State) readField(ref Term, root types.Type, path []int) Term {
	ft := fieldTypeAt(root, path)
	c := st.comp(fieldComp(root, path), ArrSort(SI, sortOf(ft)))
	return Sel(c, ref)
}

func (st *State) writeField(ref Term, root types.Type, path []int, v Term) {
	ft := fieldTypeAt(root, path)
	name := fieldComp(root, path)
	c := st.comp(name, ArrSort(SI, sortOf(ft)))
	st.setComp(name, Sto(c, ref, v))
}

// loadObj reads the value of type t stored at (root, path) of object ref.
func (st *State) loadObj(ref Term, root types.Type, path []int) Val {
	t := fieldTypeAt(root, path)
	if isStruct(t) {
		sv := &StructVal{T: t}
		s := under(types.Unalias(t)).(*types.Struct)
		for i := 0; i < s.NumFields(); i++ {
			if _, isArr := under(s.Field(i).Type()).(*types.Array); isArr {
				sv.F = append(sv.F, nil)
				continue
			}
			sv.F = append(sv.F, st.loadObj(ref, root, append(append([]int(nil), path...), i)))
		}
		return sv
	}
	if len(path) == 0 {
		// scalar cell
		s := sortOf(root)
		v := Sel(st.comp(cellComp(s), ArrSort(SI, s)), ref)
		st.assumeLoaded(v, t)
		return v
	}
	v := st.readField(ref, root, path)
	st.assumeLoaded(v, t)
	return v
}

// assumeLoaded adds the type constraint for a value read from memory. To keep
// queries small it is only added for refs (needed for freshness reasoning) and
// integers.
func (st *State) assumeLoaded(v Term, t types.Type) {
	c := st.typeConstraint(v, t)
	st.assume(c)
}

func (st *State) storeObj(ref Term, root types.Type, path []int, v Val) {
	t := fieldTypeAt(root, path)
	if isStruct(t) {
		sv, ok := v.(*StructVal)
		if !ok {
			unsup("storing non-struct %T into struct field", v)
		}
		s := under(types.Unalias(t)).(*types.Struct)
		for i := 0; i < s.NumFields(); i++ {
			if sv.F[i] == nil {
				continue
			}
			st.storeObj(ref, root, append(append([]int(nil), path...), i), sv.F[i])
		}
		return
	}
	tv := st.scalar(v, t)
	if len(path) == 0 {
		s := sortOf(root)
		name := cellComp(s)
		st.setComp(name, Sto(st.comp(name, ArrSort(SI, s)), ref, tv))
		return
	}
	st.writeField(ref, root, path, tv)
}

// scalar converts a Val to a storable Term (spilling local pointers, boxing
// closures).
func (st *State) scalar(v Val, t types.Type) Term {
	switch x := v.(type) {
	case Term:
		return x
	case *PRef:
		if len(x.Path) == 0 {
			return x.Ref
		}
		// an interior pointer leaving the function: an opaque non-nil pointer determined by (object, field).
		// Reads through it are arbitrary; writes through it are NOT connected to the enclosing object.
		if st.x.abstract == nil {
			st.x.abstract = map[string]bool{}
		}
		st.x.abstract["interior pointer &("+typeName(x.Root)+")."+fieldNameAt(x.Root, x.Path)+" handed to a callee: the callee is assumed not to write through it"] = true
		ip := UF(SI, "ip."+sanitize(typeName(x.Root))+"."+sanitize(fieldNameAt(x.Root, x.Path)), x.Ref)
		st.assume(Neq(ip, TInt(0)))
		return ip
	case *PLocal:
		if len(x.Path) == 0 {
			return st.spill(x.Cell)
		}
		unsup("interior pointer to local escapes")
	case *CloVal:
		return st.closureID(x)
	case *FuncVal:
		return st.x.funcID(x.Fn)
	case *PElem:
		unsup("element pointer escapes")
	case nil:
		return TInt(0)
	}
	unsup("cannot make scalar of %T", v)
	return Term{}
}

// spill moves a Go-side cell into the SMT heap and returns its ref.
func (st *State) spill(id int) Term {
	c := st.cells[id]
	if c.spilled {
		return c.ref
	}
	ref := st.allocRef()
	c.spilled = true
	c.ref = ref
	v := c.V
	c.V = nil
	st.storeObj(ref, c.T, nil, v)
	return ref
}

func (st *State) newCell(t types.Type, name string) *PLocal {
	id := st.x.nextCell()
	st.cells[id] = &cell{T: t, V: zeroVal(t), name: name}
	return &PLocal{Cell: id}
}

// box stores a struct value into a fresh immutable heap object.
func (st *State) box(sv *StructVal) Term {
	ref := st.allocRef()
	st.storeObj(ref, sv.T, nil, sv)
	return ref
}

func getPath(v Val, path []int) Val {
	for _, i := range path {
		sv, ok := v.(*StructVal)
		if !ok {
			unsup("field path into non-struct %T", v)
		}
		v = sv.F[i]
	}
	return v
}

func setPath(v Val, path []int, nv Val) Val {
	if len(path) == 0 {
		return nv
	}
	sv, ok := v.(*StructVal)
	if !ok {
		unsup("field path into non-struct %T", v)
	}
	c := &StructVal{T: sv.T, F: append([]Val(nil), sv.F...)}
	c.F[path[0]] = setPath(sv.F[path[0]], path[1:], nv)
	return c
}

// load dereferences a pointer value.
func (st *State) load(p Val, elem types.Type) Val {
	switch x := p.(type) {
	case *PLocal:
		c := st.cells[x.Cell]
		if c.spilled {
			return st.loadObj(c.ref, c.T, x.Path)
		}
		return getPath(c.V, x.Path)
	case *PRef:
		return st.loadObj(x.Ref, x.Root, x.Path)
	case *PElem:
		return st.loadElem(x)
	case Term:
		return st.loadObj(x, elem, nil)
	}
	unsup("load through %T", p)
	return nil
}

func (st *State) store(p Val, elem types.Type, v Val) {
	switch x := p.(type) {
	case *PLocal:
		c := st.cells[x.Cell]
		if c.spilled {
			st.storeObj(c.ref, c.T, x.Path, v)
			return
		}
		c.V = setPath(c.V, x.Path, v)
	case *PRef:
		st.storeObj(x.Ref, x.Root, x.Path, v)
	case *PElem:
		st.storeElem(x, v)
	case Term:
		st.storeObj(x, elem, nil, v)
	default:
		unsup("store through %T", p)
	}
}

func (st *State) loadElem(p *PElem) Val {
	t := fieldTypeAt(p.Elem, p.Path)
	if isStruct(t) {
		sv := &StructVal{T: t}
		s := under(types.Unalias(t)).(*types.Struct)
		for i := 0; i < s.NumFields(); i++ {
			if _, isArr := under(s.Field(i).Type()).(*types.Array); isArr {
				sv.F = append(sv.F, nil)
				continue
			}
			q := *p
			q.Path = append(append([]int(nil), p.Path...), i)
			sv.F = append(sv.F, st.loadElem(&q))
		}
		return sv
	}
	name, s := elemComp(p.Elem, p.Path)
	c := st.comp(name, ArrSort(SI, ArrSort(SI, s)))
	v := Sel(Sel(c, p.Arr), p.Idx)
	st.assumeLoaded(v, t)
	return v
}

func (st *State) storeElem(p *PElem, v Val) {
	t := fieldTypeAt(p.Elem, p.Path)
	if isStruct(t) {
		sv := v.(*StructVal)
		s := under(types.Unalias(t)).(*types.Struct)
		for i := 0; i < s.NumFields(); i++ {
			if sv.F[i] == nil {
				continue
			}
			q := *p
			q.Path = append(append([]int(nil), p.Path...), i)
			st.storeElem(&q, sv.F[i])
		}
		return
	}
	name, s := elemComp(p.Elem, p.Path)
	c := st.comp(name, ArrSort(SI, ArrSort(SI, s)))
	st.setComp(name, Sto(c, p.Arr, Sto(Sel(c, p.Arr), p.Idx, st.scalar(v, t))))
}

// ---------- slices, interfaces, closures as ids ----------

func slArr(s Term) Term { return UF(SI, "sl.arr", s) }
func slOff(s Term) Term { return UF(SI, "sl.off", s) }
func slLen(s Term) Term { return UF(SI, "sl.len", s) }

func (st *State) mkSlice(arr, off, ln Term) Term {
	s := UF(SI, "mk.slice", arr, off, ln)
	st.assume(And(Eq(slArr(s), arr), Eq(slOff(s), off), Eq(slLen(s), ln), Imp(Neq(arr, TInt(0)), Neq(s, TInt(0)))))
	return s
}

// slIx is the backing-array index of element i of slice s. It is kept as an
// uninterpreted application (defined equal to off+i) so that quantified facts
// about slice elements have arithmetic-free triggers.
func (st *State) slIx(s, i Term) Term {
	if n, ok := litVal(i); ok && n.Sign() == 0 {
		// common case s[0]
	}
	ix := UF(SI, "sl.ix", s, i)
	st.assume(Eq(ix, Add(slOff(s), i)))
	return ix
}

func ifTag(i Term) Term { return UF(SI, "if.tag", i) }
func ifRef(i Term) Term { return UF(SI, "if.ref", i) }

func (st *State) mkIface(tag, ref Term) Term {
	i := UF(SI, "mk.iface", tag, ref)
	st.assume(And(Eq(ifTag(i), tag), Eq(ifRef(i), ref), Neq(i, TInt(0))))
	return i
}

func cloFn(c Term) Term { return UF(SI, "clo.fn", c) }

func (st *State) closureID(c *CloVal) Term {
	ref := st.allocRef()
	st.assume(Eq(cloFn(ref), st.x.funcID(c.Fn)))
	for i, b := range c.Bind {
		fv := c.Fn.FreeVars[i]
		bt := st.scalar(b, fv.Type())
		name := fmt.Sprintf("B!%s!%s", sanitize(funcKey(c.Fn)), fv.Name())
		comp := st.comp(name, ArrSort(SI, sortOf(fv.Type())))
		st.setComp(name, Sto(comp, ref, bt))
	}
	return ref
}

// nameBig replaces a large term by a fresh constant defined equal to it, so
// that later terms stay small.
func (st *State) nameBig(v Val) Val {
	t, ok := v.(Term)
	if !ok || len(t.S) < 160 {
		return v
	}
	n := st.fresh("t", t.Sort)
	st.assume(Eq(n, t))
	return n
}

// ---------- misc ----------

func sortedKeys(m map[string]Term) []string {
	var ks []string
	for k := range m {
		ks = append(ks, k)
	}
	sort.Strings(ks)
	return ks
}

// mapCard: number of keys of map m. A map that is not empty has a key of its key type
// (card.wit names one): emptiness can then be concluded from "no key of the key type is present".
func (st *State) mapCard(m Term, kt, vt types.Type) Term {
	has := st.mapHas(m, kt, vt)
	c := UF(SI, "card", has)
	w := UF(SI, "card.wit", has)
	st.assume(Ge(c, TInt(0)))
	st.assume(Or(Eq(c, TInt(0)), And(Sel(has, w), st.typeConstraint(w, kt))))
	return c
}
