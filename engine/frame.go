package main

// Frame obligations discharged by an exhaustive scan of the SSA of every /repo
// package that is loaded: "nothing else writes this".

import (
	"fmt"
	"go/types"
	"sort"
	"strings"

	"golang.org/x/tools/go/ssa"
)

type frameScan func(eng *Engine) (violations []string, scanned int)

var frameScans = map[string]frameScan{}

func (eng *Engine) RunFrameScan(name, prop string) ([]*Query, error) {
	f, ok := frameScans[name]
	if !ok {
		return nil, fmt.Errorf("unknown frame scan %q", name)
	}
	viol, n := f(eng)
	if n == 0 {
		return nil, fmt.Errorf("frame scan %q visited no instruction", name)
	}
	sort.Strings(viol)
	q := &Query{Name: "frame." + name + "/scan", Detail: fmt.Sprintf("%d instructions scanned; offenders: %s", n, strings.Join(viol, "; ")), Goal: TBool(len(viol) == 0)}
	if len(viol) > 0 {
		q.Goal = TFalse
		q.Decls = map[string]string{}
	}
	return []*Query{q}, nil
}

// allRepoFuncs returns every function (incl. closures) of loaded /repo packages.
func (eng *Engine) allRepoFuncs() []*ssa.Function {
	var out []*ssa.Function
	var keys []string
	for k := range eng.funcs {
		keys = append(keys, k)
	}
	sort.Strings(keys)
	for _, k := range keys {
		out = append(out, eng.funcs[k])
	}
	return out
}

// storesToField reports functions that store to field `field` of named struct `typ`.
func storesToField(eng *Engine, typ, field string, allowed map[string]bool) (viol []string, n int) {
	for _, f := range eng.allRepoFuncs() {
		for _, b := range f.Blocks {
			for _, in := range b.Instrs {
				n++
				st, ok := in.(*ssa.Store)
				if !ok {
					continue
				}
				fa, ok := st.Addr.(*ssa.FieldAddr)
				if !ok {
					continue
				}
				root := fa.X.Type().(*types.Pointer).Elem()
				if typeName(root) == typ && fieldNameAt(root, []int{fa.Field}) == field {
					if !eng.writerAccepted(f, allowed) {
						viol = append(viol, funcKey(f)+" writes "+typ+"."+field)
					}
				}
			}
		}
	}
	return
}

func init() {
	// the only close() of a channel in /repo is stream.wait closing stopCh
	frameScans["close-sites"] = func(eng *Engine) (viol []string, n int) {
		for _, f := range eng.allRepoFuncs() {
			for _, b := range f.Blocks {
				for _, in := range b.Instrs {
					n++
					if c, ok := in.(*ssa.Call); ok {
						if bi, ok := c.Call.Value.(*ssa.Builtin); ok && bi.Name() == "close" && funcKey(f) != "stream.(*stream).wait" {
							viol = append(viol, funcKey(f)+" closes a channel")
						}
					}
				}
			}
		}
		return
	}
	frameScans["norecover"] = func(eng *Engine) (viol []string, n int) {
		for _, f := range eng.allRepoFuncs() {
			for _, b := range f.Blocks {
				for _, in := range b.Instrs {
					n++
					if c, ok := in.(*ssa.Call); ok {
						if bi, ok := c.Call.Value.(*ssa.Builtin); ok && bi.Name() == "recover" {
							viol = append(viol, funcKey(f)+" calls recover")
						}
					}
				}
			}
		}
		return
	}
}

// csmapMutators reports functions that call Store/StoreIf/Delete on a
// ConcurrentSwissMap whose type name matches (e.g. "uint16_ptr.models.Offset").
func csmapMutators(eng *Engine, typeSuffix string, allowed map[string]bool) (viol []string, n int) {
	for _, f := range eng.allRepoFuncs() {
		for _, b := range f.Blocks {
			for _, in := range b.Instrs {
				n++
				var cc *ssa.CallCommon
				switch v := in.(type) {
				case *ssa.Call:
					cc = &v.Call
				case *ssa.Go:
					cc = &v.Call
				case *ssa.Defer:
					cc = &v.Call
				default:
					continue
				}
				callee, ok := cc.Value.(*ssa.Function)
				if !ok || cc.IsInvoke() {
					continue
				}
				k := funcKey(callee)
				if k != "wrapper.(*ConcurrentSwissMap).Store" && k != "wrapper.(*ConcurrentSwissMap).StoreIf" && k != "wrapper.(*ConcurrentSwissMap).Delete" {
					continue
				}
				recv := callee.Signature.Recv()
				if recv == nil || !strings.HasSuffix(typeName(recv.Type()), typeSuffix) {
					continue
				}
				if !eng.writerAccepted(f, allowed) {
					viol = append(viol, funcKey(f)+" mutates a ConcurrentSwissMap of "+typeSuffix)
				}
			}
		}
	}
	return
}

func init() {
	// C20: every channel created by the Couchbase operation wrappers is buffered, so that a completion
	// arriving after the waiter has gone (timeout, cancel) can always be delivered without blocking.
	frameScans["callback-channels"] = func(eng *Engine) (viol []string, n int) {
		for _, f := range eng.allRepoFuncs() {
			if f.Pkg == nil || f.Pkg.Pkg.Name() != "couchbase" {
				continue
			}
			root := f
			for root.Parent() != nil {
				root = root.Parent()
			}
			if funcKey(root) == "couchbase.NewCBMembership" {
				continue // infoChan: a rendezvous channel by design (first membership info)
			}
			for _, b := range f.Blocks {
				for _, in := range b.Instrs {
					n++
					mc, ok := in.(*ssa.MakeChan)
					if !ok {
						continue
					}
					c, isConst := mc.Size.(*ssa.Const)
					if !isConst || c.Value == nil || c.Int64() < 1 {
						viol = append(viol, funcKey(f)+" creates an unbuffered (or dynamically sized) channel")
					}
				}
			}
		}
		return
	}
}

func init() {
	// C12/C16: the active-stream count is set by Open and decremented by listenEnd only.
	frameScans["active-streams-writers"] = func(eng *Engine) (viol []string, n int) {
		allowed := set("stream.(*stream).Open", "stream.(*stream).listenEnd")
		for _, f := range eng.allRepoFuncs() {
			for _, b := range f.Blocks {
				for _, in := range b.Instrs {
					n++
					c, ok := in.(*ssa.Call)
					if !ok || c.Call.IsInvoke() || len(c.Call.Args) == 0 {
						continue
					}
					callee, ok := c.Call.Value.(*ssa.Function)
					if !ok || callee.Pkg == nil || callee.Pkg.Pkg.Path() != "sync/atomic" {
						continue
					}
					switch callee.Name() {
					case "Load":
						continue
					}
					fa, ok := c.Call.Args[0].(*ssa.FieldAddr)
					if !ok {
						continue
					}
					root := fa.X.Type().(*types.Pointer).Elem()
					if typeName(root) == "stream.stream" && fieldNameAt(root, []int{fa.Field}) == "activeStreams" && !eng.writerAccepted(f, allowed) {
						viol = append(viol, funcKey(f)+" changes activeStreams ("+callee.Name()+")")
					}
				}
			}
		}
		return
	}
}

// writerAccepted: f is in the allowed set, or is a closure inside an accepted function, or is a plain
// helper (helperOf) of accepted functions.
func (eng *Engine) writerAccepted(f *ssa.Function, allowed map[string]bool) bool {
	for g := f; g != nil; g = g.Parent() {
		if allowed[funcKey(g)] || eng.helperOf(g, allowed, 2) {
			return true
		}
	}
	return false
}

// helperOf: f is only ever called (statically, never used as a value) from functions of the allowed
// set or from helpers of it - an extracted helper of an allowed writer is not a new writer.
func (eng *Engine) helperOf(f *ssa.Function, allowed map[string]bool, depth int) bool {
	if depth == 0 {
		return false
	}
	callers := 0
	for _, g := range eng.allRepoFuncs() {
		for _, b := range g.Blocks {
			for _, in := range b.Instrs {
				for _, op := range in.Operands(nil) {
					if fn, ok := (*op).(*ssa.Function); ok && fn == f {
						c, isCall := in.(*ssa.Call)
						if !isCall || c.Call.Value != f {
							return false // taken as a value / go / defer: not a plain helper call
						}
						if g != f && !eng.callerAccepted(g, allowed, depth-1) {
							return false
						}
						callers++
					}
				}
			}
		}
	}
	return callers > 0
}

func (eng *Engine) callerAccepted(g *ssa.Function, allowed map[string]bool, depth int) bool {
	for h := g; h != nil; h = h.Parent() {
		if allowed[funcKey(h)] || eng.helperOf(h, allowed, depth) {
			return true
		}
	}
	return false
}

// fieldWriterScan builds a scan from a table "Type.field" -> functions allowed to assign it.
func fieldWriterScan(table map[string][]string) frameScan {
	return func(eng *Engine) (viol []string, n int) {
		var keys []string
		for k := range table {
			keys = append(keys, k)
		}
		sort.Strings(keys)
		for _, k := range keys {
			i := strings.LastIndex(k, ".")
			v, m := storesToField(eng, k[:i], k[i+1:], set(table[k]...))
			viol, n = merge(viol, n, v, m)
		}
		return
	}
}

func init() {
	// C06/C08: the pieces of a resume position held by an observer change only in their setters
	frameScans["observer-position-writers"] = fieldWriterScan(map[string][]string{
		"couchbase.observer.currentSnapshot": {"couchbase.(*observer).SeqNoAdvanced", "couchbase.(*observer).SnapshotMarker"},
		"couchbase.observer.vbUUID":          {"couchbase.(*observer).SetVbUUID"},
		"couchbase.observer.catchupSeqNo":    {"couchbase.(*observer).SetCatchup"},
		"couchbase.observer.isCatchupNeed":   {"couchbase.(*observer).SetCatchup", "couchbase.(*observer).needCatchup"},
		"couchbase.observer.latestSeqNo":     {"couchbase.NewObserver"},
	})
	// C13: the delivery / end switches of an observer are only ever switched off, by Close / CloseEnd
	frameScans["observer-switch-writers"] = fieldWriterScan(map[string][]string{
		"couchbase.observer.closed":    {"couchbase.(*observer).Close"},
		"couchbase.observer.endClosed": {"couchbase.(*observer).CloseEnd"},
	})
	// C11/C13: the lifecycle state of the stream changes only in the lifecycle functions
	frameScans["lifecycle-writers"] = fieldWriterScan(map[string][]string{
		"stream.stream.balancing":       {"stream.(*stream).Rebalance", "stream.(*stream).rebalance"},
		"stream.stream.open":            {"stream.(*stream).Open", "stream.(*stream).Close"},
		"stream.stream.observers":       {"stream.(*stream).Open", "stream.(*stream).Close"},
		"stream.stream.closeWithCancel": {"stream.(*stream).Close"},
		"stream.stream.rebalanceTimer":  {"stream.(*stream).Rebalance"},
	})
	// C12: the two "session finished" marks are reset by Open and set by wait
	frameScans["finish-mark-writers"] = fieldWriterScan(map[string][]string{
		"stream.stream.streamFinishedWithCloseCh":    {"stream.(*stream).Open", "stream.(*stream).wait"},
		"stream.stream.streamFinishedWithEndEventCh": {"stream.(*stream).Open", "stream.(*stream).wait"},
	})
}

// staticCallers reports functions that call (or take the value of) callee outside the allowed set.
func staticCallers(eng *Engine, callee string, allowed map[string]bool) (viol []string, n int) {
	for _, f := range eng.allRepoFuncs() {
		for _, b := range f.Blocks {
			for _, in := range b.Instrs {
				n++
				for _, op := range in.Operands(nil) {
					fn, ok := (*op).(*ssa.Function)
					if !ok || funcKey(fn) != callee {
						continue
					}
					if !eng.writerAccepted(f, allowed) {
						viol = append(viol, funcKey(f)+" uses "+callee)
					}
				}
			}
		}
	}
	return
}

func set(keys ...string) map[string]bool {
	m := map[string]bool{}
	for _, k := range keys {
		m[k] = true
	}
	return m
}

func merge(a []string, n1 int, b []string, n2 int) ([]string, int) { return append(a, b...), n1 + n2 }

func init() {
	// Who may write the tracked positions and the dirty set (C01, C04, C05).
	frameScans["offset-writers"] = func(eng *Engine) ([]string, int) {
		v, n := storesToField(eng, "stream.stream", "offsets", set("stream.(*stream).Open", "stream.(*stream).Close"))
		v, n = merge(v, n, nil, 0)
		v2, n2 := storesToField(eng, "stream.stream", "dirtyOffsets", set("stream.(*stream).Open", "stream.(*stream).Close", "stream.(*stream).UnmarkDirtyOffsets"))
		v, n = merge(v, n, v2, n2)
		v3, n3 := storesToField(eng, "stream.stream", "anyDirtyOffset", set("stream.(*stream).Open", "stream.(*stream).UnmarkDirtyOffsets", "stream.(*stream).waitAndForward", "stream.(*stream).waitAndForward$1", "stream.(*stream).setOffset"))
		v, n = merge(v, n, v3, n3)
		v4, n4 := csmapMutators(eng, "ConcurrentSwissMap_of_uint16_ptr.models.Offset", set("stream.(*stream).setOffset", "stream.(*checkpoint).Load$1", "stream.(*checkpoint).Load$2"))
		v, n = merge(v, n, v4, n4)
		v5, n5 := csmapMutators(eng, "ConcurrentSwissMap_of_uint16_bool", set("stream.(*stream).setOffset", "stream.(*checkpoint).Load$1", "stream.(*checkpoint).Save"))
		v, n = merge(v, n, v5, n5)
		v6, n6 := storesToField(eng, "stream.stream", "vbIDRange", set("stream.(*stream).Open"))
		v, n = merge(v, n, v6, n6)
		// a position is settled only by an acknowledgement (Ack closure), an absorbed library event
		// (waitAndForward) or a non-document stream event (listen): these are the only callers of setOffset
		v7, n7 := staticCallers(eng, "stream.(*stream).setOffset", set("stream.(*stream).waitAndForward$1", "stream.(*stream).waitAndForward", "stream.(*stream).listen"))
		return merge(v, n, v7, n7)
	}
	// Offsets, snapshot markers and checkpoint documents are never modified after construction (C06).
	frameScans["immutable-offsets"] = func(eng *Engine) ([]string, int) {
		var viol []string
		n := 0
		for _, f := range eng.allRepoFuncs() {
			for _, b := range f.Blocks {
				for _, in := range b.Instrs {
					n++
					st, ok := in.(*ssa.Store)
					if !ok {
						continue
					}
					fa, ok := st.Addr.(*ssa.FieldAddr)
					if !ok {
						continue
					}
					root := typeName(fa.X.Type().(*types.Pointer).Elem())
					switch root {
					case "models.Offset", "models.SnapshotMarker", "models.CheckpointDocument", "models.CheckpointDocumentCheckpoint", "models.CheckpointDocumentSnapshot":
						// allowed only as initialisation of an object allocated in the same function
						if isFreshLocalObject(f, fa.X) {
							continue
						}
						viol = append(viol, funcKey(f)+" writes a field of "+root+" outside its construction")
					}
				}
			}
		}
		return viol, n
	}
}

// isFreshLocalObject: v is an object allocated in f, directly or read back from a local
// variable of f that only ever holds objects allocated in f (x := &T{...}; x.f = ...).
func isFreshLocalObject(f *ssa.Function, v ssa.Value) bool {
	if a, ok := v.(*ssa.Alloc); ok {
		return a.Parent() == f
	}
	ld, ok := v.(*ssa.UnOp)
	if !ok || ld.Op.String() != "*" {
		return false
	}
	cell, ok := ld.X.(*ssa.Alloc)
	if !ok || cell.Parent() != f || cell.Referrers() == nil {
		return false
	}
	stores := 0
	for _, r := range *cell.Referrers() {
		switch rv := r.(type) {
		case *ssa.Store:
			if rv.Addr != cell {
				return false // the variable's address is stored somewhere
			}
			a, ok := rv.Val.(*ssa.Alloc)
			if !ok || a.Parent() != f {
				return false
			}
			stores++
		case *ssa.UnOp, *ssa.DebugRef:
		default:
			return false
		}
	}
	return stores > 0
}

func init() {
	// observer.listener / endListener are assigned only in NewObserver; the stream hands in s.listen / s.listenEnd (C03, C12)
	frameScans["listener-wiring"] = func(eng *Engine) ([]string, int) {
		v, n := storesToField(eng, "couchbase.observer", "listener", set("couchbase.NewObserver"))
		v2, n2 := storesToField(eng, "couchbase.observer", "endListener", set("couchbase.NewObserver"))
		v, n = merge(v, n, v2, n2)
		v3, n3 := storesToField(eng, "couchbase.observer", "persistSeqNo", set("couchbase.(*observer).SetPersistSeqNo", "couchbase.NewObserver"))
		v, n = merge(v, n, v3, n3)
		// ConsumeEvent is invoked from waitAndForward only
		for _, f := range eng.allRepoFuncs() {
			for _, b := range f.Blocks {
				for _, in := range b.Instrs {
					if c, ok := in.(*ssa.Call); ok && c.Call.IsInvoke() && c.Call.Method.Name() == "ConsumeEvent" && funcKey(f) != "stream.(*stream).waitAndForward" {
						v = append(v, funcKey(f)+" calls Consumer.ConsumeEvent")
					}
				}
			}
		}
		return v, n
	}
}
