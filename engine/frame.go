package main

// Frame obligations discharged by an exhaustive scan of the SSA of every /repo
// package that is loaded: "nothing else writes this".

import (
	"fmt"
	"go/types"
	"sort"
	"strings"

	"golang.org/x/tools/go/ssa"
)

type frameScan func(eng *Engine) (violations []string, scanned int)

var frameScans = map[string]frameScan{}

func (eng *Engine) RunFrameScan(name, prop string) ([]*Query, error) {
	f, ok := frameScans[name]
	if !ok {
		return nil, fmt.Errorf("unknown frame scan %q", name)
	}
	viol, n := f(eng)
	if n == 0 {
		return nil, fmt.Errorf("frame scan %q visited no instruction", name)
	}
	sort.Strings(viol)
	q := &Query{Name: "frame." + name + "/scan", Detail: fmt.Sprintf("%d instructions scanned; offenders: %s", n, strings.Join(viol, "; ")), Goal: TBool(len(viol) == 0)}
	if len(viol) > 0 {
		q.Goal = TFalse
		q.Decls = map[string]string{}
	}
	return []*Query{q}, nil
}

// allRepoFuncs returns every function (incl. closures) of loaded /repo packages.
func (eng *Engine) allRepoFuncs() []*ssa.Function {
	var out []*ssa.Function
	var keys []string
	for k := range eng.funcs {
		keys = append(keys, k)
	}
	sort.Strings(keys)
	for _, k := range keys {
		out = append(out, eng.funcs[k])
	}
	return out
}

// storesToField reports functions that store to field `field` of named struct `typ`.
func storesToField(eng *Engine, typ, field string, allowed map[string]bool) (viol []string, n int) {
	for _, f := range eng.allRepoFuncs() {
		for _, b := range f.Blocks {
			for _, in := range b.Instrs {
				n++
				st, ok := in.(*ssa.Store)
				if !ok {
					continue
				}
				fa, ok := st.Addr.(*ssa.FieldAddr)
				if !ok {
					continue
				}
				root := fa.X.Type().(*types.Pointer).Elem()
				if typeName(root) == typ && fieldNameAt(root, []int{fa.Field}) == field {
					if !allowed[funcKey(f)] {
						viol = append(viol, funcKey(f)+" writes "+typ+"."+field)
					}
				}
			}
		}
	}
	return
}

func init() {
	frameScans["norecover"] = func(eng *Engine) (viol []string, n int) {
		for _, f := range eng.allRepoFuncs() {
			for _, b := range f.Blocks {
				for _, in := range b.Instrs {
					n++
					if c, ok := in.(*ssa.Call); ok {
						if bi, ok := c.Call.Value.(*ssa.Builtin); ok && bi.Name() == "recover" {
							viol = append(viol, funcKey(f)+" calls recover")
						}
					}
				}
			}
		}
		return
	}
}
