package main

// Channels (ghost FIFO with environment steps), select, map iteration.

import (
	"fmt"
	"go/types"
	"strings"

	"golang.org/x/tools/go/ssa"
)

const chanNote = "channels: ghost FIFO (sent/received counters, buffer, capacity, closed flag); before a blocking receive other goroutines may have sent or closed; sequentially consistent"

func (st *State) chanInit(ch, size Term) {
	for _, c := range []string{"CH!sent", "CH!rcvd", "CH!own"} {
		a := st.comp(c, ArrSort(SI, SI))
		st.setComp(c, Sto(a, ch, TInt(0)))
	}
	a := st.comp("CH!cap", ArrSort(SI, SI))
	st.setComp("CH!cap", Sto(a, ch, size))
	b := st.comp("CH!closed", ArrSort(SI, SB))
	st.setComp("CH!closed", Sto(b, ch, TFalse))
}

// isDoneChan: the channel is syntactically a context's Done() channel.
func isDoneChan(ch Term) bool { return strings.HasPrefix(ch.S, "(ctx.done ") }

func (st *State) chSel(comp string, ch Term) Term {
	return Sel(st.comp(comp, ArrSort(SI, SI)), ch)
}

// chanEnvClose: another goroutine may close the channel (monotone).
func (st *State) chanEnvClose(ch Term) {
	c := st.comp("CH!closed", ArrSort(SI, SB))
	n := st.fresh("closed", SB)
	st.assume(Imp(Sel(c, ch), n))
	// only context.Done channels are closed behind the function's back; the
	// single close() in /repo (stream.wait on stopCh) is checked by the frame scan close-sites
	if !isDoneChan(ch) {
		st.assume(Eq(n, Sel(c, ch)))
	}
	st.setComp("CH!closed", Sto(c, ch, n))
}

// chanEnvSend: other goroutines may have sent values (up to capacity).
func (st *State) chanEnvSend(ch Term, sort string) {
	sent := st.chSel("CH!sent", ch)
	n := st.fresh("sent", SI)
	st.assume(Ge(n, sent))
	// channels that are only ever closed (context.Done) receive no values
	if isDoneChan(ch) {
		st.assume(Eq(n, sent))
	}
	a := st.comp("CH!sent", ArrSort(SI, SI))
	st.setComp("CH!sent", Sto(a, ch, n))
	// buffer entries beyond the old counter are arbitrary
	name := "CH!buf!" + sort
	buf := st.comp(name, ArrSort(SI, ArrSort(SI, sort)))
	nb := st.fresh("buf", ArrSort(SI, sort))
	st.x.counter++
	i := Term{fmt.Sprintf("q.i!%d", st.x.counter), SI}
	st.assume(Forall([]Term{i}, Imp(Lt(i, sent), Eq(Sel(nb, i), Sel(Sel(buf, ch), i)))))
	st.setComp(name, Sto(buf, ch, nb))
}

func chanSort(et types.Type) string {
	s := sortOf(et)
	if s == "" {
		return SI // struct{} and other composites carry no information
	}
	return s
}

func (x *Exec) chanSend(st *State, ch Term, v Val, et types.Type, what string) {
	x.note(&x.trusted, chanNote)
	x.implicitPanic(st, Eq(ch, TInt(0)), "nilchan", "send on nil channel")
	sent := st.chSel("CH!sent", ch)
	rcvd := st.chSel("CH!rcvd", ch)
	capc := st.chSel("CH!cap", ch)
	closed := Sel(st.comp("CH!closed", ArrSort(SI, SB)), ch)
	x.implicitPanic(st, closed, "sendclosed", "send on closed channel")
	space := Lt(Sub(sent, rcvd), capc)
	top := st.frames[0].contract
	if top != nil && hasFlag(top, "nonblocking") {
		x.oblige(st, "nonblock."+what, top.Props, space, "send cannot block: buffered count < capacity")
	}
	st.assume(space)
	sort := chanSort(et)
	var tv Term
	if sortOf(et) == "" {
		tv = TInt(0)
	} else {
		tv = st.scalar(v, et)
	}
	name := "CH!buf!" + sort
	buf := st.comp(name, ArrSort(SI, ArrSort(SI, sort)))
	st.setComp(name, Sto(buf, ch, Sto(Sel(buf, ch), sent, tv)))
	a := st.comp("CH!sent", ArrSort(SI, SI))
	st.setComp("CH!sent", Sto(a, ch, Add(sent, TInt(1))))
	o := st.comp("CH!own", ArrSort(SI, SI))
	st.setComp("CH!own", Sto(o, ch, Add(Sel(o, ch), TInt(1))))
}

func hasFlag(c *Contract, f string) bool {
	for _, p := range c.Flags {
		if p == f {
			return true
		}
	}
	return false
}

// chanRecv models a blocking receive.
func (x *Exec) chanRecv(st *State, ch Term, et types.Type) (Val, Term) {
	x.note(&x.trusted, chanNote)
	sort := chanSort(et)
	st.chanEnvSend(ch, sort)
	st.chanEnvClose(ch)
	sent := st.chSel("CH!sent", ch)
	rcvd := st.chSel("CH!rcvd", ch)
	closed := Sel(st.comp("CH!closed", ArrSort(SI, SB)), ch)
	avail := Gt(sent, rcvd)
	st.assume(Or(avail, closed))
	buf := Sel(st.comp("CH!buf!"+sort, ArrSort(SI, ArrSort(SI, sort))), ch)
	raw := Sel(buf, rcvd)
	var val Val
	if sortOf(et) == "" {
		val = zeroVal(et)
	} else {
		st.assumeLoaded(raw, et)
		val = Ite(avail, raw, zeroVal(et).(Term))
	}
	a := st.comp("CH!rcvd", ArrSort(SI, SI))
	st.setComp("CH!rcvd", Sto(a, ch, Ite(avail, Add(rcvd, TInt(1)), rcvd)))
	return val, avail
}

func (x *Exec) selectOp(st *State, fr *Frame, b *ssa.BasicBlock, idx int, v *ssa.Select) bool {
	x.note(&x.trusted, chanNote+"; select is a nondeterministic choice among enabled cases")
	type alt struct {
		i int
	}
	n := len(v.States)
	tupT := v.Type().(*types.Tuple)
	mk := func(st2 *State, chosen int, recvOk Term, recvVal Val, chosenCh Term) {
		tv := &TupleVal{V: []Val{TInt(int64(chosen)), recvOk}}
		ri := 0
		for i, s := range v.States {
			if s.Dir == types.RecvOnly {
				t := tupT.At(2 + ri).Type()
				if i == chosen && recvVal != nil {
					tv.V = append(tv.V, recvVal)
				} else {
					tv.V = append(tv.V, zeroVal(t))
				}
				ri++
			}
		}
		st2.top().regs[v] = tv
		x.logCall(st2, "select.case", []Val{TInt(int64(chosen)), chosenCh}, []types.Type{types.Typ[types.Int], types.Typ[types.Int]})
		x.runFrom(st2, b, idx+1)
	}
	for i := 0; i < n; i++ {
		var st2 *State
		if i == n-1 && v.Blocking {
			st2 = st
		} else {
			st2 = x.fork(st)
		}
		s := v.States[i]
		fr2 := st2.top()
		ch := x.get(st2, fr2, s.Chan).(Term)
		et := under(s.Chan.Type()).(*types.Chan).Elem()
		if s.Dir == types.RecvOnly {
			val, ok := x.chanRecv(st2, ch, et)
			mk(st2, i, ok, val, ch)
		} else {
			x.chanSend(st2, ch, x.get(st2, fr2, s.Send), et, "select")
			mk(st2, i, TFalse, nil, ch)
		}
	}
	if !v.Blocking {
		mk(st, -1, TFalse, nil, TInt(0))
	}
	return true
}

// ---------- Go map iteration (range / next) ----------

func (x *Exec) rangeInit(st *State, fr *Frame, v *ssa.Range) Val {
	mt, ok := under(v.X.Type()).(*types.Map)
	if !ok {
		unsup("range over %s", v.X.Type())
	}
	m := x.get(st, fr, v.X).(Term)
	fr.rangeIter[v] = &rangeState{m: m, visited: Term{"((as const (Array Int Bool)) false)", ArrSort(SI, SB)}, ktype: mt.Key(), vtype: mt.Elem(), seq: len(fr.rangeIter) + 1}
	return TInt(0)
}

func (x *Exec) next(st *State, fr *Frame, b *ssa.BasicBlock, idx int, v *ssa.Next) bool {
	rs := fr.rangeIter[v.Iter.(*ssa.Range)]
	if rs == nil {
		unsup("next without range state")
	}
	has := st.mapHas(rs.m, rs.ktype, rs.vtype)
	// exit path
	st2 := x.fork(st)
	x.counter++
	q := Term{fmt.Sprintf("q.k!%d", x.counter), SI}
	st2.assume(Forall([]Term{q}, Imp(Sel(has, q), Sel(rs.visited, q))))
	st2.top().regs[v] = &TupleVal{[]Val{TFalse, zeroVal(rs.ktype), zeroVal(rs.vtype)}}
	x.runFrom(st2, b, idx+1)
	// iteration path
	kk := st.freshTyped("k", rs.ktype)
	st.assume(And(Neq(rs.m, TInt(0)), Sel(has, kk), Not(Sel(rs.visited, kk))))
	val := Sel(st.mapVal(rs.m, rs.ktype, rs.vtype), kk)
	st.assumeLoaded(val, rs.vtype)
	nrs := *rs
	nrs.visited = Sto(rs.visited, kk, TTrue)
	fr.rangeIter[v.Iter.(*ssa.Range)] = &nrs
	fr.regs[v] = &TupleVal{[]Val{TTrue, kk, val}}
	return false
}

// ---------- ConcurrentSwissMap.Range(closure) as a loop ----------

func closureSuffix(fn *ssa.Function) string {
	n := fn.Name()
	if i := strings.LastIndex(n, "$"); i >= 0 {
		return n[i:]
	}
	return n
}

func (x *Exec) rangeCall(st *State, m Term, kt, vt types.Type, fval Val, k func(st *State, res Val)) {
	clo, ok := fval.(*CloVal)
	if !ok {
		if fv, isF := fval.(*FuncVal); isF && fv.Fn.Parent() != nil {
			clo = &CloVal{Fn: fv.Fn} // a function literal that captures nothing
		} else {
			unsup("Range with a function value that is not a local closure")
		}
	}
	fr := st.top()
	c := x.eng.contractFor(fr.fn)
	var spec *LoopSpec
	key := closureSuffix(clo.Fn)
	if c != nil {
		spec = c.Loops[key]
	}
	if spec == nil {
		spec = &LoopSpec{N: key}
	}
	lname := "loop" + key
	emptyVisited := Term{"((as const (Array Int Bool)) false)", ArrSort(SI, SB)}
	evalInv := func(st *State, inv *Clause, visited Term, pol int) Term {
		e := x.envFor(st, st.top(), c)
		e.locals = true
		e.vars["visited"] = TV{visited, nil}
		e.pol = pol
		return x.safeBool(e, inv)
	}
	for i, inv := range spec.Invariants {
		x.oblige(st, lname+".entry"+invLabel(inv, i), nil, evalInv(st, inv, emptyVisited, 1), "Range invariant on entry: "+inv.Src)
	}
	// havoc cells written by the closure body and declared heap locations
	entryWM := st.wmNow()
	x.loopEntryWM = entryWM
	st.bumpWM() // earlier iterations may have allocated
	x.havocClosureWrites(st, clo)
	x.havocLocs(st, fr, spec.Modifies, nil)
	visited := st.fresh("visited", ArrSort(SI, SB))
	has := st.mapHas(m, kt, vt)
	x.counter++
	q := Term{fmt.Sprintf("q.k!%d", x.counter), SI}
	st.assume(Forall([]Term{q}, Imp(Sel(visited, q), Sel(has, q))))
	for _, inv := range spec.Invariants {
		st.assume(evalInv(st, inv, visited, -1))
	}
	base := st.snapshot()
	baseWM := st.wmNow()
	// exit path: everything visited
	stExit := x.fork(st)
	x.counter++
	q2 := Term{fmt.Sprintf("q.k!%d", x.counter), SI}
	stExit.assume(Forall([]Term{q2}, Imp(Sel(has, q2), Sel(visited, q2))))
	k(stExit, nil)
	// iteration path
	kk := st.freshTyped("k", kt)
	st.assume(And(Sel(has, kk), Not(Sel(visited, kk))))
	val := Sel(st.mapVal(m, kt, vt), kk)
	st.assumeLoaded(val, vt)
	x.inline(st, clo.Fn, []Val{kk, val}, clo.Bind, func(st2 *State, res Val) {
		cont := res.(Term)
		var stStop *State
		if cont.S != "true" {
			stStop = x.fork(st2)
		}
		if cont.S != "false" {
			st2.assume(cont)
			nv := Sto(visited, kk, TTrue)
			for i, inv := range spec.Invariants {
				x.oblige(st2, lname+".preserved"+invLabel(inv, i), nil, evalInv(st2, inv, nv, 1), "Range invariant preserved: "+inv.Src)
			}
			x.loopEntryWM = entryWM
			x.frameCheck(st2, st2.top(), base, baseWM, spec.Modifies, base, lname+".frame")
		}
		if stStop != nil {
			stStop.assume(Not(cont))
			k(stStop, nil)
		}
	})
}

func (x *Exec) havocClosureWrites(st *State, clo *CloVal) {
	written := map[int]bool{}
	var scan func(fn *ssa.Function, regs map[ssa.Value]Val, depth int)
	scan = func(fn *ssa.Function, regs map[ssa.Value]Val, depth int) {
		for _, b := range fn.Blocks {
			for _, in := range b.Instrs {
				switch v := in.(type) {
				case *ssa.Store:
					root := v.Addr
					for {
						if fa, ok := root.(*ssa.FieldAddr); ok {
							root = fa.X
							continue
						}
						break
					}
					if p, ok := regs[root].(*PLocal); ok {
						written[p.Cell] = true
					}
				case *ssa.MakeClosure:
					cfn := v.Fn.(*ssa.Function)
					bregs := map[ssa.Value]Val{}
					for k, bv := range v.Bindings {
						if val, ok := regs[bv]; ok {
							bregs[cfn.FreeVars[k]] = val
						}
					}
					if depth < 3 {
						scan(cfn, bregs, depth+1)
					}
				}
			}
		}
	}
	regs := map[ssa.Value]Val{}
	for i, fv := range clo.Fn.FreeVars {
		regs[fv] = clo.Bind[i]
	}
	scan(clo.Fn, regs, 0)
	for id := range written {
		c := st.cells[id]
		if c == nil {
			continue
		}
		if c.spilled {
			st.storeObj(c.ref, c.T, nil, st.freshVal("hv."+c.name, c.T))
		} else {
			c.V = st.freshVal("hv."+c.name, c.T)
		}
	}
}
