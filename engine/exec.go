package main

// Symbolic executor over go/ssa (NaiveForm). Path by path, loops cut at their
// header with user invariants, calls by contract / inlining / extern model.

import (
	"fmt"
	"go/constant"
	"go/token"
	"go/types"
	"math/big"
	"strings"

	"golang.org/x/tools/go/ssa"
)

type Query struct {
	Name      string // obligation name
	Detail    string // path / site description
	Assume    []Term
	Goal      Term
	Decls     map[string]string
	ExpectSat bool
	Replay    *ReplayInfo // how to re-run a counterexample of this query on the real function (nil: not possible)
}

type Exec struct {
	eng       *Engine
	fn        *ssa.Function
	contract  *Contract
	counter   int
	lastCalleeSnaps map[string]map[string]Term // snapshots named by the contract applied last (for lemmas)
	cellCtr   int
	decls     map[string]string
	seenTC    map[string]map[*State]bool
	queries   []*Query
	paths     int
	maxPaths  int
	entryHeap map[string]Term
	entryWM   Term
	oblPrefix string
	abstract  map[string]bool // notes: abstractions used
	inlined   map[string]bool
	trusted   map[string]bool
	smoke     bool // smoke mode: add "ensures false" reachability obligations
	reached   map[string]bool
	lemmaMode bool
	loopEntryWM Term
	replay    *ReplayInfo
}

func (x *Exec) fresh(prefix, sort string) Term {
	x.counter++
	name := fmt.Sprintf("%s!%d", sanitize(prefix), x.counter)
	x.decls[name] = sort
	return Term{name, sort}
}

func (x *Exec) freshNamed(comp, sort string) Term {
	x.counter++
	name := fmt.Sprintf("%s@%d", comp, x.counter)
	x.decls[name] = sort
	return Term{name, sort}
}

func (x *Exec) declare(name, sort string) Term {
	x.decls[name] = sort
	return Term{name, sort}
}

func (x *Exec) nextCell() int { x.cellCtr++; return x.cellCtr }

func (x *Exec) funcID(fn *ssa.Function) Term { return x.eng.funcID(fn) }

func (x *Exec) note(kind *map[string]bool, s string) {
	if *kind == nil {
		*kind = map[string]bool{}
	}
	(*kind)[s] = true
}

// oblige records one proof obligation instance.
func (x *Exec) oblige(st *State, kind string, props []string, goal Term, detail string) {
	if goal.S == "true" {
		x.reached[kind] = true
		x.queries = append(x.queries, &Query{Name: x.oblPrefix + "/" + kind, Detail: detail, Goal: goal, Decls: nil})
		return
	}
	q := &Query{Name: x.oblPrefix + "/" + kind, Detail: detail, Assume: append([]Term(nil), st.pc...), Goal: goal, Decls: x.decls}
	x.queries = append(x.queries, q)
	_ = props
}

// ---------- function execution ----------

func (x *Exec) pushFrame(st *State, fn *ssa.Function, args []Val, bind []Val, depth int) *Frame {
	fr := &Frame{fn: fn, regs: map[ssa.Value]Val{}, named: map[string]int{}, allNamed: map[string][]int{},
		loopOn: map[int]*loopCtx{}, unrolled: map[int]int{}, depth: depth, params: args, freeCells: bind,
		rangeIter: map[ssa.Value]*rangeState{}}
	for i, p := range fn.Params {
		fr.regs[p] = args[i]
	}
	for i, fv := range fn.FreeVars {
		fr.regs[fv] = bind[i]
	}
	st.frames = append(st.frames, fr)
	return fr
}

func (x *Exec) runFrom(st *State, b *ssa.BasicBlock, idx int) {
	fr := st.top()
	fr.cur = b
	for i := idx; i < len(b.Instrs); i++ {
		st.steps++
		if st.steps > 200000 {
			unsup("step limit exceeded")
		}
		done := x.instr(st, fr, b, i, b.Instrs[i])
		if done {
			return
		}
	}
	unsup("fell off block %d of %s", b.Index, fr.fn)
}

func (x *Exec) fork(st *State) *State {
	x.paths++
	if x.paths > x.maxPaths {
		unsup("path limit %d exceeded", x.maxPaths)
	}
	return st.clone()
}

func (x *Exec) get(st *State, fr *Frame, v ssa.Value) Val {
	switch c := v.(type) {
	case *ssa.Const:
		return x.constVal(st, c)
	case *ssa.Function:
		return &FuncVal{c}
	case *ssa.Global:
		return x.globalPtr(st, c)
	case *ssa.Builtin:
		return c
	}
	r, ok := fr.regs[v]
	if !ok {
		unsup("no value for %s (%T) in %s", v.Name(), v, fr.fn)
	}
	return r
}

func (x *Exec) globalPtr(st *State, g *ssa.Global) Val {
	name := "g." + g.Pkg.Pkg.Name() + "." + g.Name()
	ref := x.declare(sanitize(name), SI)
	elem := g.Type().(*types.Pointer).Elem()
	return &PRef{Ref: ref, Root: elem}
}

func (x *Exec) constVal(st *State, c *ssa.Const) Val {
	t := c.Type()
	if c.Value == nil {
		return zeroVal(t)
	}
	switch c.Value.Kind() {
	case constant.Bool:
		return TBool(constant.BoolVal(c.Value))
	case constant.Int:
		n, ok := new(big.Int).SetString(c.Value.ExactString(), 10)
		if !ok {
			unsup("int const %s", c.Value)
		}
		if b, isB := under(t).(*types.Basic); isB && b.Info()&types.IsFloat != 0 {
			return x.floatLit(c.Value.ExactString())
		}
		return TBig(n)
	case constant.String:
		return x.eng.strLit(x, constant.StringVal(c.Value))
	case constant.Float:
		return x.floatLit(c.Value.ExactString())
	}
	unsup("constant %s", c)
	return nil
}

func (x *Exec) floatLit(s string) Term {
	if s == "0" {
		return TInt(0) // the zero value of a float variable
	}
	return x.declare("f64.lit."+sanitize(s), SI)
}

// ---------- instructions ----------

func (x *Exec) instr(st *State, fr *Frame, b *ssa.BasicBlock, i int, in ssa.Instruction) (done bool) {
	switch v := in.(type) {
	case *ssa.DebugRef:
		return false
	case *ssa.Alloc:
		elem := v.Type().(*types.Pointer).Elem()
		if _, isArr := under(elem).(*types.Array); isArr {
			arr := st.allocRef()
			at := under(elem).(*types.Array)
			x.zeroArr(st, arr, at.Elem())
			fr.regs[v] = &PRef{Ref: arr, Root: elem}
			return false
		}
		p := st.newCell(elem, v.Comment)
		fr.regs[v] = p
		if v.Comment != "" {
			// a parameter or named result keeps its name for the whole function: a variable that shadows it in an
			// inner scope must not silently take over what a contract means by that name
			if _, bound := fr.named[v.Comment]; !(bound && isParamOrResultName(fr.fn, v.Comment)) {
				fr.named[v.Comment] = p.Cell
			}
			fr.allNamed[v.Comment] = append(fr.allNamed[v.Comment], p.Cell)
		}
		return false
	case *ssa.Store:
		elem := v.Addr.Type().(*types.Pointer).Elem()
		p := x.get(st, fr, v.Addr)
		x.checkNonNil(st, p, "store")
		st.store(p, elem, x.get(st, fr, v.Val))
		return false
	case *ssa.UnOp:
		return x.unop(st, fr, b, i, v)
	case *ssa.BinOp:
		fr.regs[v] = st.nameBig(x.binop(st, v.Op, x.get(st, fr, v.X), x.get(st, fr, v.Y), v.X.Type(), v.Type()))
		return false
	case *ssa.FieldAddr:
		base := x.get(st, fr, v.X)
		st2 := under(v.X.Type().(*types.Pointer).Elem())
		_ = st2
		root := v.X.Type().(*types.Pointer).Elem()
		switch p := base.(type) {
		case *PLocal:
			fr.regs[v] = &PLocal{p.Cell, append(append([]int(nil), p.Path...), v.Field)}
		case *PRef:
			fr.regs[v] = &PRef{p.Ref, p.Root, append(append([]int(nil), p.Path...), v.Field)}
		case *PElem:
			fr.regs[v] = &PElem{p.Arr, p.Idx, p.Elem, append(append([]int(nil), p.Path...), v.Field)}
		case Term:
			x.implicitPanic(st, Eq(p, TInt(0)), "nil", fmt.Sprintf("field %s of nil %s", fieldNameAt(root, []int{v.Field}), typeName(root)))
			fr.regs[v] = &PRef{p, root, []int{v.Field}}
		default:
			unsup("FieldAddr on %T", base)
		}
		return false
	case *ssa.Field:
		fr.regs[v] = getPath(x.get(st, fr, v.X), []int{v.Field})
		return false
	case *ssa.IndexAddr:
		fr.regs[v] = x.indexAddr(st, fr, v)
		return false
	case *ssa.Index:
		base := x.get(st, fr, v.X)
		if bt, ok := base.(Term); ok && isString(v.X.Type()) {
			fr.regs[v] = UF(SI, "str.at", bt, x.get(st, fr, v.Index).(Term))
			return false
		}
		unsup("Index on %s", v.X.Type())
	case *ssa.Lookup:
		fr.regs[v] = x.lookup(st, fr, v)
		return false
	case *ssa.MapUpdate:
		m := x.get(st, fr, v.Map).(Term)
		mt := under(v.Map.Type()).(*types.Map)
		x.implicitPanic(st, Eq(m, TInt(0)), "nilmap", "assignment to entry in nil map")
		st.mapStore(m, st.scalar(x.get(st, fr, v.Key), mt.Key()), st.scalar(x.get(st, fr, v.Value), mt.Elem()), mt.Key(), mt.Elem())
		return false
	case *ssa.MakeMap:
		mt := under(v.Type()).(*types.Map)
		fr.regs[v] = st.newMap(mt.Key(), mt.Elem())
		return false
	case *ssa.MakeSlice:
		ln := x.get(st, fr, v.Len).(Term)
		arr := st.allocRef()
		et := under(v.Type()).(*types.Slice).Elem()
		x.zeroArr(st, arr, et)
		x.implicitPanic(st, Lt(ln, TInt(0)), "makeslice", "negative length")
		sl := st.mkSlice(arr, TInt(0), ln)
		if capT, ok := x.get(st, fr, v.Cap).(Term); ok {
			st.assume(Eq(UF(SI, "sl.cap", sl), capT))
		}
		fr.regs[v] = sl
		return false
	case *ssa.MakeChan:
		ch := st.allocRef()
		sz := x.get(st, fr, v.Size).(Term)
		st.chanInit(ch, sz)
		fr.regs[v] = ch
		return false
	case *ssa.MakeInterface:
		fr.regs[v] = x.makeIface(st, x.get(st, fr, v.X), v.X.Type())
		return false
	case *ssa.MakeClosure:
		fn := v.Fn.(*ssa.Function)
		var bind []Val
		for _, bv := range v.Bindings {
			bind = append(bind, x.get(st, fr, bv))
		}
		fr.regs[v] = &CloVal{Fn: fn, Bind: bind}
		return false
	case *ssa.ChangeInterface:
		fr.regs[v] = x.get(st, fr, v.X)
		return false
	case *ssa.ChangeType:
		fr.regs[v] = x.get(st, fr, v.X)
		return false
	case *ssa.Convert:
		fr.regs[v] = st.nameBig(x.convert(st, x.get(st, fr, v.X), v.X.Type(), v.Type()))
		return false
	case *ssa.MultiConvert:
		fr.regs[v] = x.convert(st, x.get(st, fr, v.X), v.X.Type(), v.Type())
		return false
	case *ssa.Slice:
		fr.regs[v] = x.sliceOp(st, fr, v)
		return false
	case *ssa.Extract:
		tv := x.get(st, fr, v.Tuple).(*TupleVal)
		fr.regs[v] = tv.V[v.Index]
		return false
	case *ssa.TypeAssert:
		fr.regs[v] = x.typeAssert(st, fr, v)
		return false
	case *ssa.Phi:
		for k, pred := range b.Preds {
			if pred == fr.prev {
				fr.regs[v] = x.get(st, fr, v.Edges[k])
				return false
			}
		}
		unsup("phi without matching predecessor")
	case *ssa.Range:
		fr.regs[v] = x.rangeInit(st, fr, v)
		return false
	case *ssa.Next:
		return x.next(st, fr, b, i, v)
	case *ssa.Select:
		return x.selectOp(st, fr, b, i, v)
	case *ssa.Send:
		ch := x.get(st, fr, v.Chan).(Term)
		et := under(v.Chan.Type()).(*types.Chan).Elem()
		x.chanSend(st, ch, x.get(st, fr, v.X), et, "send")
		return false
	case *ssa.Go:
		x.goStmt(st, fr, v)
		return false
	case *ssa.Defer:
		d := deferred{call: &v.Call, site: v}
		if !v.Call.IsInvoke() {
			d.fn = x.get(st, fr, v.Call.Value)
		} else {
			d.fn = x.get(st, fr, v.Call.Value)
		}
		for _, a := range v.Call.Args {
			d.args = append(d.args, x.get(st, fr, a))
		}
		fr.defers = append(fr.defers, d)
		return false
	case *ssa.RunDefers:
		x.runDefers(st, func(st2 *State) { x.runFrom(st2, b, i+1) })
		return true
	case *ssa.Call:
		if x.isDeferStack(v) {
			fr.regs[v] = TInt(0)
			return false
		}
		x.call(st, v, &v.Call, nil, nil, func(st2 *State, res Val) {
			st2.top().regs[v] = res
			x.runFrom(st2, b, i+1)
		})
		return true
	case *ssa.If:
		if j := silentDiamond(b); j != nil {
			// both branches only log: skip them without forking
			x.note(&x.abstract, "branches that only call the logger are skipped (their argument evaluation is assumed not to panic)")
			x.enterBlock(st, b, j)
			return true
		}
		c := x.get(st, fr, v.Cond).(Term)
		if c.S != "true" && c.S != "false" && x.mergeOn(st) {
			if j := joinOf(b); j != nil {
				x.mergedIf(st, b, j, c)
				return true
			}
		}
		switch c.S {
		case "true":
			x.enterBlock(st, b, b.Succs[0])
		case "false":
			x.enterBlock(st, b, b.Succs[1])
		default:
			st2 := x.fork(st)
			st.assume(c)
			x.enterBlock(st, b, b.Succs[0])
			st2.assume(Not(c))
			x.enterBlock(st2, st2.top().fn.Blocks[b.Index], st2.top().fn.Blocks[b.Succs[1].Index])
		}
		return true
	case *ssa.Jump:
		x.enterBlock(st, b, b.Succs[0])
		return true
	case *ssa.Return:
		var res Val
		switch len(v.Results) {
		case 0:
		case 1:
			res = x.get(st, fr, v.Results[0])
		default:
			tv := &TupleVal{}
			for _, r := range v.Results {
				tv.V = append(tv.V, x.get(st, fr, r))
			}
			res = tv
		}
		x.ret(st, res, false)
		return true
	case *ssa.Panic:
		x.explicitPanic(st, x.get(st, fr, v.X))
		return true
	}
	unsup("instruction %T: %s", in, in)
	return true
}

func (x *Exec) isDeferStack(c *ssa.Call) bool {
	if b, ok := c.Call.Value.(*ssa.Builtin); ok && b.Name() == "ssa:deferstack" {
		return true
	}
	return false
}

func isString(t types.Type) bool {
	b, ok := under(types.Unalias(t)).(*types.Basic)
	return ok && b.Info()&types.IsString != 0
}

func isFloat(t types.Type) bool {
	b, ok := under(types.Unalias(t)).(*types.Basic)
	return ok && b.Info()&types.IsFloat != 0
}

func isUnsigned(t types.Type) bool {
	b, ok := under(types.Unalias(t)).(*types.Basic)
	return ok && b.Info()&types.IsUnsigned != 0
}

func isInteger(t types.Type) bool {
	b, ok := under(types.Unalias(t)).(*types.Basic)
	return ok && b.Info()&types.IsInteger != 0
}

func (x *Exec) zeroArr(st *State, arr Term, elem types.Type) {
	if isStruct(elem) {
		for _, lf := range leaves(elem) {
			name, s := elemComp(elem, lf.path)
			c := st.comp(name, ArrSort(SI, ArrSort(SI, s)))
			st.setComp(name, Sto(c, arr, constArr(s)))
		}
		return
	}
	name, s := elemComp(elem, nil)
	c := st.comp(name, ArrSort(SI, ArrSort(SI, s)))
	st.setComp(name, Sto(c, arr, constArr(s)))
}

func constArr(valSort string) Term {
	z := "0"
	if valSort == SB {
		z = "false"
	}
	return Term{fmt.Sprintf("((as const (Array Int %s)) %s)", valSort, z), ArrSort(SI, valSort)}
}

// checkNonNil: a store/load through a nil pointer is an implicit panic.
func (x *Exec) checkNonNil(st *State, p Val, what string) {
	if t, ok := p.(Term); ok {
		x.implicitPanic(st, Eq(t, TInt(0)), "nil", what+" through nil pointer")
	}
}

// implicitPanic: cond is the condition under which the runtime would panic.
func (x *Exec) implicitPanic(st *State, cond Term, kind, what string) {
	if cond.S == "false" {
		return
	}
	c := st.frames[0].contract
	if c != nil && !x.lemmaMode {
		if c.NoPanic {
			x.oblige(st, "safe."+kind, c.Props, Not(cond), what+" in "+st.top().fn.Name())
		}
		for _, cl := range c.ByKind("returns") {
			pre := x.evalEntryBool(st, cl)
			x.oblige(st, clauseName(cl), cl.Props, Imp(pre, Not(cond)), "implicit panic: "+what)
		}
	}
	st.assume(Not(cond))
}

func (x *Exec) unop(st *State, fr *Frame, b *ssa.BasicBlock, i int, v *ssa.UnOp) bool {
	a := x.get(st, fr, v.X)
	switch v.Op {
	case token.MUL:
		x.checkNonNil(st, a, "load")
		fr.regs[v] = st.load(a, v.Type())
	case token.NOT:
		fr.regs[v] = Not(a.(Term))
	case token.SUB:
		if isFloat(v.Type()) {
			fr.regs[v] = UF(SI, "f64.neg", a.(Term))
		} else {
			fr.regs[v] = wrap(Neg(a.(Term)), v.Type())
		}
	case token.XOR:
		fr.regs[v] = UF(SI, "bv.not", a.(Term))
	case token.ARROW:
		ch := a.(Term)
		et := under(v.X.Type()).(*types.Chan).Elem()
		val, ok := x.chanRecv(st, ch, et)
		if v.CommaOk {
			fr.regs[v] = &TupleVal{[]Val{val, ok}}
		} else {
			fr.regs[v] = val
		}
	default:
		unsup("unop %s", v.Op)
	}
	return false
}

var two64 = new(big.Int).Lsh(big.NewInt(1), 64)

func typeBits(t types.Type) (bits uint, signed bool, ok bool) {
	b, isB := under(types.Unalias(t)).(*types.Basic)
	if !isB || b.Info()&types.IsInteger == 0 {
		return 0, false, false
	}
	switch b.Kind() {
	case types.Int8:
		return 8, true, true
	case types.Int16:
		return 16, true, true
	case types.Int32:
		return 32, true, true
	case types.Int, types.Int64:
		return 64, true, true
	case types.Uint8:
		return 8, false, true
	case types.Uint16:
		return 16, false, true
	case types.Uint32:
		return 32, false, true
	case types.Uint, types.Uint64, types.Uintptr:
		return 64, false, true
	case types.UntypedInt:
		return 0, true, false
	}
	return 0, false, false
}

// wrap reduces a mathematical integer to the machine range of t (one wrap).
func wrap(r Term, t types.Type) Term {
	bits, signed, ok := typeBits(t)
	if !ok {
		return r
	}
	mod := new(big.Int).Lsh(big.NewInt(1), bits)
	if n, isLit := litVal(r); isLit {
		m := new(big.Int).Mod(n, mod)
		if signed && m.Cmp(new(big.Int).Rsh(mod, 1)) >= 0 {
			m.Sub(m, mod)
		}
		return TBig(m)
	}
	if !signed {
		max := new(big.Int).Sub(mod, big.NewInt(1))
		return Ite(Gt(r, TBig(max)), Sub(r, TBig(mod)), Ite(Lt(r, TInt(0)), Add(r, TBig(mod)), r))
	}
	half := new(big.Int).Rsh(mod, 1)
	max := new(big.Int).Sub(half, big.NewInt(1))
	min := new(big.Int).Neg(half)
	return Ite(Gt(r, TBig(max)), Sub(r, TBig(mod)), Ite(Lt(r, TBig(min)), Add(r, TBig(mod)), r))
}

// wrapMod reduces by full modular arithmetic (for multiplications by constants).
func wrapMod(r Term, t types.Type) Term {
	bits, signed, ok := typeBits(t)
	if !ok {
		return r
	}
	mod := new(big.Int).Lsh(big.NewInt(1), bits)
	if _, isLit := litVal(r); isLit {
		return wrap(r, t)
	}
	if !signed {
		return app(SI, "mod", r, TBig(mod))
	}
	half := new(big.Int).Rsh(mod, 1)
	return Sub(app(SI, "mod", Add(r, TBig(half)), TBig(mod)), TBig(half))
}

func tdiv(a, b Term) Term {
	if x, ok := litVal(a); ok {
		if y, ok := litVal(b); ok && y.Sign() != 0 {
			return TBig(new(big.Int).Quo(x, y))
		}
	}
	d := func(p, q Term) Term { return app(SI, "div", p, q) }
	if y, ok := litVal(b); ok && y.Sign() > 0 {
		return Ite(Ge(a, TInt(0)), d(a, b), Neg(d(Neg(a), b)))
	}
	return Ite(Ge(a, TInt(0)),
		Ite(Gt(b, TInt(0)), d(a, b), Neg(d(a, Neg(b)))),
		Ite(Gt(b, TInt(0)), Neg(d(Neg(a), b)), d(Neg(a), Neg(b))))
}

func (x *Exec) binop(st *State, op token.Token, av, bv Val, xt, rt types.Type) Val {
	// struct comparison
	if sa, ok := av.(*StructVal); ok {
		sb := bv.(*StructVal)
		eq := structEq(st, sa, sb)
		if op == token.EQL {
			return eq
		}
		if op == token.NEQ {
			return Not(eq)
		}
		unsup("binop %s on structs", op)
	}
	a := st.scalar(av, xt)
	b := st.scalar(bv, xt)
	if isFloat(xt) {
		switch op {
		case token.ADD:
			return UF(SI, "f64.add", a, b)
		case token.SUB:
			return UF(SI, "f64.sub", a, b)
		case token.MUL:
			return UF(SI, "f64.mul", a, b)
		case token.QUO:
			return UF(SI, "f64.div", a, b)
		case token.EQL:
			return Eq(a, b)
		case token.NEQ:
			return Neq(a, b)
		case token.LSS:
			return UF(SB, "f64.lt", a, b)
		case token.LEQ:
			return UF(SB, "f64.le", a, b)
		case token.GTR:
			return UF(SB, "f64.lt", b, a)
		case token.GEQ:
			return UF(SB, "f64.le", b, a)
		}
		unsup("float binop %s", op)
	}
	if isString(xt) {
		switch op {
		case token.ADD:
			return x.eng.strConcat(x, a, b)
		case token.EQL:
			return Eq(a, b)
		case token.NEQ:
			return Neq(a, b)
		case token.LSS:
			return UF(SB, "str.lt", a, b)
		case token.GTR:
			return UF(SB, "str.lt", b, a)
		case token.LEQ:
			return Not(UF(SB, "str.lt", b, a))
		case token.GEQ:
			return Not(UF(SB, "str.lt", a, b))
		}
		unsup("string binop %s", op)
	}
	switch op {
	case token.EQL:
		return Eq(a, b)
	case token.NEQ:
		return Neq(a, b)
	case token.LSS:
		return Lt(a, b)
	case token.LEQ:
		return Le(a, b)
	case token.GTR:
		return Gt(a, b)
	case token.GEQ:
		return Ge(a, b)
	case token.ADD:
		return wrap(Add(a, b), rt)
	case token.SUB:
		return wrap(Sub(a, b), rt)
	case token.MUL:
		_, la := litVal(a)
		_, lb := litVal(b)
		if la || lb {
			return wrapMod(Mul(a, b), rt)
		}
		r := Mul(a, b)
		if lo, hi, ok := intRange(rt); ok {
			x.oblige(st, "nowrap.mul", nil, And(Le(Term{lo, SI}, r), Le(r, Term{hi, SI})), "product stays in range of "+rt.String())
			x.note(&x.abstract, "symbolic*symbolic multiplication is mathematical; a nowrap obligation guards it")
		}
		return r
	case token.QUO:
		x.implicitPanic(st, Eq(b, TInt(0)), "div0", "integer division by zero")
		return wrap(tdiv(a, b), rt)
	case token.REM:
		x.implicitPanic(st, Eq(b, TInt(0)), "div0", "integer division by zero")
		if _, lb := litVal(b); lb {
			return Sub(a, Mul(b, tdiv(a, b)))
		}
		return UF(SI, "go.rem", a, b)
	case token.SHL:
		if n, ok := litVal(b); ok && n.IsInt64() && n.Int64() < 64 {
			return wrapMod(Mul(a, TBig(new(big.Int).Lsh(big.NewInt(1), uint(n.Int64())))), rt)
		}
		return UF(SI, "bv.shl", a, b)
	case token.SHR:
		if n, ok := litVal(b); ok && n.IsInt64() && n.Int64() < 64 && isUnsigned(xt) {
			return app(SI, "div", a, TBig(new(big.Int).Lsh(big.NewInt(1), uint(n.Int64()))))
		}
		return UF(SI, "bv.shr", a, b)
	case token.AND:
		if a.Sort == SB {
			return And(a, b)
		}
		return UF(SI, "bv.and", a, b)
	case token.OR:
		if a.Sort == SB {
			return Or(a, b)
		}
		return UF(SI, "bv.or", a, b)
	case token.XOR:
		return UF(SI, "bv.xor", a, b)
	case token.AND_NOT:
		return UF(SI, "bv.andnot", a, b)
	}
	unsup("binop %s", op)
	return nil
}

func structEq(st *State, a, b *StructVal) Term {
	var cs []Term
	s := under(types.Unalias(a.T)).(*types.Struct)
	for i := range a.F {
		if a.F[i] == nil {
			continue
		}
		if sa, ok := a.F[i].(*StructVal); ok {
			cs = append(cs, structEq(st, sa, b.F[i].(*StructVal)))
			continue
		}
		cs = append(cs, Eq(st.scalar(a.F[i], s.Field(i).Type()), st.scalar(b.F[i], s.Field(i).Type())))
	}
	return And(cs...)
}

func (x *Exec) convert(st *State, v Val, from, to types.Type) Val {
	a, ok := v.(Term)
	if !ok {
		if _, isP := v.(*PRef); isP {
			return v
		}
		unsup("convert of %T", v)
	}
	switch {
	case isInteger(from) && isInteger(to):
		return wrapMod(a, to)
	case isInteger(from) && isFloat(to):
		return UF(SI, "f64.of", a)
	case isFloat(from) && isInteger(to):
		r := UF(SI, "f64.toint", a)
		st.assume(st.typeConstraint(r, to))
		return r
	case isFloat(from) && isFloat(to):
		return a
	case isString(to) && isInteger(from):
		return UF(SI, "str.ofrune", a)
	case isString(to):
		return UF(SI, "str.ofbytes", a)
	case isString(from):
		return UF(SI, "bytes.ofstr", a)
	}
	return a
}

func (x *Exec) indexAddr(st *State, fr *Frame, v *ssa.IndexAddr) Val {
	base := x.get(st, fr, v.X)
	idx := x.get(st, fr, v.Index).(Term)
	switch xt := under(v.X.Type()).(type) {
	case *types.Slice:
		s := base.(Term)
		x.implicitPanic(st, Or(Lt(idx, TInt(0)), Ge(idx, slLen(s))), "index", "slice index out of range")
		return &PElem{Arr: slArr(s), Idx: st.slIx(s, idx), Elem: xt.Elem()}
	case *types.Pointer:
		at := under(xt.Elem()).(*types.Array)
		p, ok := base.(*PRef)
		if !ok {
			unsup("IndexAddr on array pointer %T", base)
		}
		x.implicitPanic(st, Or(Lt(idx, TInt(0)), Ge(idx, TInt(at.Len()))), "index", "array index out of range")
		return &PElem{Arr: p.Ref, Idx: idx, Elem: at.Elem()}
	}
	unsup("IndexAddr on %s", v.X.Type())
	return nil
}

func (x *Exec) sliceOp(st *State, fr *Frame, v *ssa.Slice) Val {
	base := x.get(st, fr, v.X)
	var lo, hi Term
	if v.Low != nil {
		lo = x.get(st, fr, v.Low).(Term)
	} else {
		lo = TInt(0)
	}
	switch xt := under(v.X.Type()).(type) {
	case *types.Slice:
		s := base.(Term)
		if v.High != nil {
			hi = x.get(st, fr, v.High).(Term)
		} else {
			hi = slLen(s)
		}
		x.implicitPanic(st, Or(Lt(lo, TInt(0)), Gt(lo, hi), Gt(hi, slLen(s))), "slice", "slice bounds out of range")
		return st.mkSlice(slArr(s), Add(slOff(s), lo), Sub(hi, lo))
	case *types.Pointer:
		at := under(xt.Elem()).(*types.Array)
		p := base.(*PRef)
		if v.High != nil {
			hi = x.get(st, fr, v.High).(Term)
		} else {
			hi = TInt(at.Len())
		}
		return st.mkSlice(p.Ref, lo, Sub(hi, lo))
	case *types.Basic:
		s := base.(Term)
		if v.High != nil {
			hi = x.get(st, fr, v.High).(Term)
		} else {
			hi = UF(SI, "str.len", s)
		}
		x.implicitPanic(st, Or(Lt(lo, TInt(0)), Lt(hi, lo), Gt(hi, UF(SI, "str.len", s))), "strslice", "string slice bounds out of range")
		return UF(SI, "str.sub", s, lo, hi)
	}
	unsup("Slice on %s", v.X.Type())
	return nil
}

// ---------- maps ----------

// Map components are per (key type, value type): maps of different Go types
// cannot alias.
func mapNames(kt, vt types.Type) (hn, vn, vs string) {
	vs = sortOf(vt)
	if vs == "" {
		unsup("map with composite value type %s", vt)
	}
	suffix := typeName(kt) + "!" + typeName(vt)
	return "MH!" + suffix, "MV!" + suffix, vs
}

var hasSort = ArrSort(SI, ArrSort(SI, SB))

func (st *State) mapHas(m Term, kt, vt types.Type) Term {
	hn, _, _ := mapNames(kt, vt)
	return Sel(st.comp(hn, hasSort), m)
}

func (st *State) mapVal(m Term, kt, vt types.Type) Term {
	_, vn, vs := mapNames(kt, vt)
	return Sel(st.comp(vn, ArrSort(SI, ArrSort(SI, vs))), m)
}

func (st *State) mapStore(m, k, v Term, kt, vt types.Type) {
	hn, vn, vs := mapNames(kt, vt)
	h := st.comp(hn, hasSort)
	st.setComp(hn, Sto(h, m, Sto(Sel(h, m), k, TTrue)))
	vc := st.comp(vn, ArrSort(SI, ArrSort(SI, vs)))
	st.setComp(vn, Sto(vc, m, Sto(Sel(vc, m), k, v)))
}

// mapStoreIf stores v under k when set holds.
func (st *State) mapStoreIf(m, k, v, set Term, kt, vt types.Type) {
	hn, vn, vs := mapNames(kt, vt)
	h := st.comp(hn, hasSort)
	st.setComp(hn, Sto(h, m, Sto(Sel(h, m), k, Or(set, Sel(Sel(h, m), k)))))
	vc := st.comp(vn, ArrSort(SI, ArrSort(SI, vs)))
	st.setComp(vn, Sto(vc, m, Sto(Sel(vc, m), k, Ite(set, v, Sel(Sel(vc, m), k)))))
}

func (st *State) mapDelete(m, k Term, kt, vt types.Type) {
	hn, _, _ := mapNames(kt, vt)
	h := st.comp(hn, hasSort)
	st.setComp(hn, Sto(h, m, Sto(Sel(h, m), k, TFalse)))
}

func (st *State) mapCopy(dst, src Term, kt, vt types.Type) {
	hn, vn, vs := mapNames(kt, vt)
	h := st.comp(hn, hasSort)
	st.setComp(hn, Sto(h, dst, Sel(h, src)))
	vc := st.comp(vn, ArrSort(SI, ArrSort(SI, vs)))
	st.setComp(vn, Sto(vc, dst, Sel(vc, src)))
}

func (st *State) newMap(kt, vt types.Type) Term {
	hn, _, _ := mapNames(kt, vt)
	m := st.allocRef()
	h := st.comp(hn, hasSort)
	st.setComp(hn, Sto(h, m, Term{"((as const (Array Int Bool)) false)", ArrSort(SI, SB)}))
	return m
}

func (x *Exec) lookup(st *State, fr *Frame, v *ssa.Lookup) Val {
	if mt, ok := under(v.X.Type()).(*types.Map); ok {
		m := x.get(st, fr, v.X).(Term)
		k := st.scalar(x.get(st, fr, v.Index), mt.Key())
		has := And(Neq(m, TInt(0)), Sel(st.mapHas(m, mt.Key(), mt.Elem()), k))
		raw := Sel(st.mapVal(m, mt.Key(), mt.Elem()), k)
		st.assumeLoaded(raw, mt.Elem())
		val := Ite(has, raw, zeroVal(mt.Elem()).(Term))
		if v.CommaOk {
			return &TupleVal{[]Val{val, has}}
		}
		return val
	}
	// string index
	s := x.get(st, fr, v.X).(Term)
	return UF(SI, "str.at", s, x.get(st, fr, v.Index).(Term))
}

// ---------- interfaces ----------

func (x *Exec) makeIface(st *State, v Val, t types.Type) Val {
	tag := x.eng.typeID(t)
	var payload Term
	switch p := v.(type) {
	case *StructVal:
		payload = st.box(p)
	default:
		payload = st.scalar(v, t)
		if payload.Sort == SB {
			payload = Ite(payload, TInt(1), TInt(0))
		}
	}
	return st.mkIface(tag, payload)
}

func (x *Exec) typeAssert(st *State, fr *Frame, v *ssa.TypeAssert) Val {
	iv := x.get(st, fr, v.X).(Term)
	at := v.AssertedType
	var ok Term
	var val Val
	if _, isI := under(at).(*types.Interface); isI {
		ok = And(Neq(iv, TInt(0)), UF(SB, "impl."+typeName(at), ifTag(iv)))
		val = iv
	} else {
		ok = And(Neq(iv, TInt(0)), Eq(ifTag(iv), x.eng.typeID(at)))
		val = x.unboxIface(st, iv, at)
		if tv, isT := val.(Term); isT && tv.Sort == SI {
			// a value boxed with this dynamic type is a value of the type
			st.assume(Imp(ok, st.typeConstraint(tv, at)))
		}
	}
	if v.CommaOk {
		// on failure the value is the zero value
		if tv, isT := val.(Term); isT {
			val = Ite(ok, tv, zeroVal(at).(Term))
		}
		return &TupleVal{[]Val{val, ok}}
	}
	x.implicitPanic(st, Not(ok), "typeassert", "type assertion to "+at.String())
	return val
}

func (x *Exec) unboxIface(st *State, iv Term, at types.Type) Val {
	if isStruct(at) {
		return st.loadObj(ifRef(iv), at, nil)
	}
	r := ifRef(iv)
	if sortOf(at) == SB {
		return Neq(r, TInt(0))
	}
	return r
}

// ---------- blocks and loops ----------

func loopOrdinal(fn *ssa.Function, header *ssa.BasicBlock) int {
	n := 0
	for _, b := range fn.Blocks {
		if isLoopHeader(b) {
			n++
			if b == header {
				return n
			}
		}
	}
	return 0
}

func isLoopHeader(b *ssa.BasicBlock) bool {
	for _, p := range b.Preds {
		if b.Dominates(p) {
			return true
		}
	}
	return false
}

func (x *Exec) enterBlock(st *State, from, to *ssa.BasicBlock) {
	fr := st.top()
	fr.prev = from
	if n := len(fr.stops); n > 0 && fr.stops[n-1].at == to {
		// speculative branch execution reached the join block
		*fr.stops[n-1].col = append(*fr.stops[n-1].col, st)
		return
	}
	if isLoopHeader(to) {
		back := to.Dominates(from)
		n := loopOrdinal(fr.fn, to)
		var spec *LoopSpec
		if c := x.eng.contractFor(fr.fn); c != nil {
			spec = c.Loops[fmt.Sprint(n)]
		}
		if spec != nil && spec.Unroll > 0 {
			if back {
				fr.unrolled[to.Index]++
				if fr.unrolled[to.Index] > spec.Unroll {
					x.oblige(st, fmt.Sprintf("loop%d.unwind", n), nil, TFalse, fmt.Sprintf("more than %d iterations of loop %d in %s", spec.Unroll, n, fr.fn.Name()))
					return
				}
			} else {
				fr.unrolled[to.Index] = 0
			}
			x.runFrom(st, to, 0)
			return
		}
		if spec == nil {
			spec = &LoopSpec{N: fmt.Sprint(n)}
			if !back {
				// a loop nobody annotated (new code, or a helper inlined here): everything derived after it is
				// imprecise; recorded as a failed proof-structure obligation so that the function is treated as
				// restructured (fallback decider) rather than as violating its contract
				x.queries = append(x.queries, &Query{Name: fmt.Sprintf("%s/loop%d.unannotated", x.oblPrefix, n), Detail: "loop in " + funcKey(fr.fn) + " has no invariant in the contract (results after it are imprecise)", Goal: TTrue})
			}
		}
		if back {
			lc := fr.loopOn[to.Index]
			if lc == nil {
				unsup("back edge to loop %d without active cut", n)
			}
			for k, inv := range spec.Invariants {
				g := x.evalClauseBool(st, fr, inv, nil, 1)
				x.oblige(st, fmt.Sprintf("loop%d.preserved%s", n, invLabel(inv, k)), nil, g, "loop invariant preserved: "+inv.Src)
			}
			x.loopEntryWM = lc.entryWM
			x.frameCheck(st, fr, lc.base, lc.wm, spec.Modifies, lc.base, fmt.Sprintf("loop%d.frame", n))
			return
		}
		for k, inv := range spec.Invariants {
			g := x.evalClauseBool(st, fr, inv, nil, 1)
			x.oblige(st, fmt.Sprintf("loop%d.entry%s", n, invLabel(inv, k)), nil, g, "loop invariant on entry: "+inv.Src)
		}
		x.loopEntryWM = st.wmNow()
		st.bumpWM() // earlier iterations may have allocated
		x.havocLoop(st, fr, to, spec)
		lc := &loopCtx{base: st.snapshot(), wm: st.wmNow(), spec: spec, header: to.Index, entryWM: x.loopEntryWM}
		fr.loopOn[to.Index] = lc
		for _, inv := range spec.Invariants {
			st.assume(x.evalClauseBool(st, fr, inv, nil, -1))
		}
		x.runFrom(st, to, 0)
		return
	}
	x.runFrom(st, to, 0)
}

func invLabel(inv *Clause, k int) string {
	if inv.Label != "" {
		return "." + inv.Label
	}
	return fmt.Sprintf(".%d", k+1)
}

// loopBlocks returns the natural loop of header.
func loopBlocks(header *ssa.BasicBlock) map[*ssa.BasicBlock]bool {
	body := map[*ssa.BasicBlock]bool{header: true}
	var stack []*ssa.BasicBlock
	for _, p := range header.Preds {
		if header.Dominates(p) && !body[p] {
			body[p] = true
			stack = append(stack, p)
		}
	}
	for len(stack) > 0 {
		b := stack[len(stack)-1]
		stack = stack[:len(stack)-1]
		for _, p := range b.Preds {
			if !body[p] {
				body[p] = true
				stack = append(stack, p)
			}
		}
	}
	return body
}

// havocLoop forgets the local cells assigned in the loop and the heap
// locations named by the loop's modifies clauses.
func (x *Exec) havocLoop(st *State, fr *Frame, header *ssa.BasicBlock, spec *LoopSpec) {
	body := loopBlocks(header)
	written := map[int]bool{}
	var scan func(fn *ssa.Function, blocks map[*ssa.BasicBlock]bool, regs map[ssa.Value]Val, depth int)
	scan = func(fn *ssa.Function, blocks map[*ssa.BasicBlock]bool, regs map[ssa.Value]Val, depth int) {
		for _, b := range fn.Blocks {
			if blocks != nil && !blocks[b] {
				continue
			}
			for _, in := range b.Instrs {
				switch v := in.(type) {
				case *ssa.Store:
					if regs == nil {
						continue
					}
					root := v.Addr
					for {
						if fa, ok := root.(*ssa.FieldAddr); ok {
							root = fa.X
							continue
						}
						break
					}
					if p, ok := regs[root].(*PLocal); ok {
						written[p.Cell] = true
					}
				case *ssa.MakeClosure:
					// closures created in the loop may write captured cells when called
					if regs == nil {
						continue
					}
					cfn := v.Fn.(*ssa.Function)
					bregs := map[ssa.Value]Val{}
					for k, bv := range v.Bindings {
						if val, ok := regs[bv]; ok {
							bregs[cfn.FreeVars[k]] = val
						}
					}
					if depth < 3 {
						scan(cfn, nil, bregs, depth+1)
					}
				}
			}
		}
	}
	scan(fr.fn, body, fr.regs, 0)
	for id := range written {
		c := st.cells[id]
		if c == nil {
			continue
		}
		if c.spilled {
			nv := st.freshVal("hv."+c.name, c.T)
			st.storeObj(c.ref, c.T, nil, nv)
		} else {
			c.V = st.freshVal("hv."+c.name, c.T)
		}
	}
	// iteration state of `range` over maps started before the loop
	for _, rs := range fr.rangeIter {
		nv := st.fresh("visited", ArrSort(SI, SB))
		has := st.mapHas(rs.m, rs.ktype, rs.vtype)
		x.counter++
		q := Term{fmt.Sprintf("q.k!%d", x.counter), SI}
		st.assume(Forall([]Term{q}, Imp(Sel(nv, q), Sel(has, q))))
		rs.visited = nv
	}
	x.havocLocs(st, fr, spec.Modifies, nil)
}

// ---------- returns and panics ----------

func (x *Exec) runDefers(st *State, k func(st *State)) {
	fr := st.top()
	if len(fr.defers) == 0 {
		k(st)
		return
	}
	d := fr.defers[len(fr.defers)-1]
	fr.defers = fr.defers[:len(fr.defers)-1]
	x.call(st, nil, d.call, d.fn, d.args, func(st2 *State, _ Val) {
		x.runDefers(st2, k)
	})
}

func (x *Exec) ret(st *State, res Val, panicked bool) {
	fr := st.top()
	if fr.onReturn != nil {
		fr.onReturn(st, res, panicked)
		return
	}
	unsup("return without continuation")
}

func (x *Exec) explicitPanic(st *State, v Val) {
	x.runDefers(st, func(st2 *State) { x.ret(st2, v, true) })
}

// inline executes fn in a new frame and continues with k on normal return;
// a panic propagates to the caller's frame.
func (x *Exec) inline(st *State, fn *ssa.Function, args []Val, bind []Val, k func(st *State, res Val)) {
	if len(fn.Blocks) == 0 {
		unsup("no body for %s", fn)
	}
	depth := st.top().depth + 1
	if depth > 12 {
		unsup("inline depth exceeded at %s", fn)
	}
	fr := x.pushFrame(st, fn, args, bind, depth)
	fr.onReturn = func(st2 *State, res Val, panicked bool) {
		st2.frames = st2.frames[:len(st2.frames)-1]
		if panicked {
			x.explicitPanic(st2, res)
			return
		}
		k(st2, res)
	}
	x.inlined[funcKey(fn)] = true
	x.runFrom(st, fn.Blocks[0], 0)
}

// ---------- go statements ----------

func (x *Exec) goStmt(st *State, fr *Frame, v *ssa.Go) {
	var args []Val
	for _, a := range v.Call.Args {
		args = append(args, x.get(st, fr, a))
	}
	key := "go:" + x.calleeKey(st, fr, &v.Call)
	if !v.Call.IsInvoke() {
		if c, ok := x.get(st, fr, v.Call.Value).(*CloVal); ok {
			// the closure itself is the first logged argument
			args = append([]Val{c}, args...)
		}
	}
	x.logCall(st, key, args, callArgTypes(&v.Call, args))
	x.note(&x.abstract, "go statement: goroutine body is verified separately under its own contract; no interleaving explored")
}

func callArgTypes(c *ssa.CallCommon, args []Val) []types.Type {
	var ts []types.Type
	for _, a := range c.Args {
		ts = append(ts, a.Type())
	}
	for len(ts) < len(args) {
		ts = append([]types.Type{nil}, ts...)
	}
	return ts
}

// funcKey is the contract key of a function: "pkg.(*T).M", "pkg.F", "pkg.(*T).M$1".
func funcKey(fn *ssa.Function) string {
	if fn.Parent() != nil {
		// anonymous: Parent$N
		return funcKey(fn.Parent()) + strings.TrimPrefix(fn.Name(), fn.Parent().Name())
	}
	o := fn
	if fn.Origin() != nil {
		o = fn.Origin()
	}
	if strings.HasSuffix(fn.Name(), "$bound") && len(fn.FreeVars) == 1 {
		// bound method value: key by the receiver type
		rt := fn.FreeVars[0].Type()
		star := ""
		if p, ok := rt.(*types.Pointer); ok {
			rt = p.Elem()
			star = "*"
		}
		if n, ok := types.Unalias(rt).(*types.Named); ok {
			pk := ""
			if n.Obj().Pkg() != nil {
				pk = n.Obj().Pkg().Name() + "."
			}
			if star != "" {
				return fmt.Sprintf("%s(*%s).%s", pk, n.Obj().Name(), fn.Name())
			}
			return fmt.Sprintf("%s%s.%s", pk, n.Obj().Name(), fn.Name())
		}
	}
	pkg := ""
	if o.Pkg != nil {
		pkg = o.Pkg.Pkg.Name()
	} else if o.Object() != nil && o.Object().Pkg() != nil {
		pkg = o.Object().Pkg().Name()
	}
	if recv := o.Signature.Recv(); recv != nil {
		rt := recv.Type()
		star := ""
		if p, ok := rt.(*types.Pointer); ok {
			rt = p.Elem()
			star = "*"
		}
		name := ""
		if n, ok := types.Unalias(rt).(*types.Named); ok {
			name = n.Obj().Name()
			if n.Obj().Pkg() != nil {
				pkg = n.Obj().Pkg().Name()
			}
		} else {
			name = rt.String()
		}
		mname := o.Name()
		mname = strings.TrimSuffix(mname, "$bound")
		bound := ""
		if strings.HasSuffix(o.Name(), "$bound") {
			bound = "$bound"
		}
		return fmt.Sprintf("%s.(%s%s).%s%s", pkg, star, name, mname, bound)
	}
	return pkg + "." + o.Name()
}


// silentBlock: the block only evaluates arguments for and calls the logger, then jumps on.
func silentBlock(b *ssa.BasicBlock) (*ssa.BasicBlock, bool) {
	if len(b.Succs) != 1 || len(b.Preds) != 1 {
		return nil, false
	}
	defined := map[ssa.Value]bool{}
	for _, in := range b.Instrs {
		switch v := in.(type) {
		case *ssa.DebugRef, *ssa.Jump:
		case *ssa.Alloc:
			if v.Comment != "varargs" {
				return nil, false
			}
			defined[v] = true
		case *ssa.IndexAddr:
			if !defined[v.X] {
				return nil, false
			}
			defined[v] = true
		case *ssa.Store:
			if !defined[v.Addr] {
				return nil, false
			}
		case *ssa.MakeInterface, *ssa.FieldAddr, *ssa.Field, *ssa.Convert, *ssa.ChangeType, *ssa.Slice, *ssa.Extract:
			// pure
		case *ssa.UnOp:
			if v.Op.String() != "*" {
				return nil, false
			}
		case *ssa.Call:
			if !v.Call.IsInvoke() || ifaceKey(v.Call.Value.Type(), v.Call.Method.Name()) == "" || !strings.HasPrefix(ifaceKey(v.Call.Value.Type(), ""), "logger.Logger.") {
				return nil, false
			}
		default:
			return nil, false
		}
	}
	// values defined here must not be used elsewhere
	for _, in := range b.Instrs {
		if val, ok := in.(ssa.Value); ok {
			if refs := val.Referrers(); refs != nil {
				for _, r := range *refs {
					if r.Block() != b {
						return nil, false
					}
				}
			}
		}
	}
	return b.Succs[0], true
}

// silentDiamond: an If whose branches are logger-only and rejoin.
func silentDiamond(b *ssa.BasicBlock) *ssa.BasicBlock {
	if len(b.Succs) != 2 {
		return nil
	}
	t, f := b.Succs[0], b.Succs[1]
	tj, tok := silentBlock(t)
	fj, fok := silentBlock(f)
	var j *ssa.BasicBlock
	switch {
	case tok && fok && tj == fj:
		j = tj
	case tok && tj == f:
		j = f
	case fok && fj == t:
		j = t
	default:
		return nil
	}
	for _, in := range j.Instrs {
		if _, isPhi := in.(*ssa.Phi); isPhi {
			return nil
		}
	}
	// the condition value itself may have been computed by calls before; that is fine
	return j
}


// ---------- path merging at simple if-joins (opt-in: contract flag `merge`) ----------

func (x *Exec) mergeOn(st *State) bool {
	c := st.frames[0].contract
	return c != nil && hasFlag(c, "merge") && len(st.frames) == 1
}

// joinOf: b ends in an If whose branches rejoin at one block (if-then or if-then-else
// without phis at the join and without loops inside).
func joinOf(b *ssa.BasicBlock) *ssa.BasicBlock {
	if len(b.Succs) != 2 {
		return nil
	}
	t, f := b.Succs[0], b.Succs[1]
	one := func(x *ssa.BasicBlock) *ssa.BasicBlock {
		if len(x.Preds) == 1 && len(x.Succs) == 1 && !isLoopHeader(x) && !isLoopHeader(x.Succs[0]) {
			return x.Succs[0]
		}
		return nil
	}
	var j *ssa.BasicBlock
	switch {
	case one(t) != nil && one(t) == f && !isLoopHeader(f):
		j = f
	case one(f) != nil && one(f) == t && !isLoopHeader(t):
		j = t
	case one(t) != nil && one(t) == one(f):
		j = one(t)
	default:
		return nil
	}
	for _, in := range j.Instrs {
		if _, ok := in.(*ssa.Phi); ok {
			return nil
		}
	}
	return j
}

func (x *Exec) mergedIf(st *State, b, j *ssa.BasicBlock, c Term) {
	base := len(st.pc)
	depth := len(st.frames)
	var arrived []*State
	rec := &stopRec{at: j, col: &arrived}
	pathsBefore := x.paths
	run := func(s *State, cond Term, succ *ssa.BasicBlock) {
		s.assume(cond)
		fr := s.top()
		fr.stops = append(fr.stops, rec)
		if succ == j {
			fr.prev = b
			arrived = append(arrived, s)
			return
		}
		x.enterBlock(s, b, succ)
	}
	st2 := x.fork(st)
	run(st, c, b.Succs[0])
	run(st2, Not(c), b.Succs[1])
	pop := func(s *State) {
		fr := s.top()
		if n := len(fr.stops); n > 0 && fr.stops[n-1] == rec {
			fr.stops = fr.stops[:n-1]
		}
	}
	for _, s := range arrived {
		pop(s)
	}
	_ = pathsBefore
	if len(arrived) == 2 && len(arrived[0].frames) == depth && len(arrived[1].frames) == depth {
		if m := x.mergeStates(arrived[0], arrived[1], base); m != nil {
			x.paths-- // the two paths continue as one
			x.note(&x.abstract, "paths are merged at simple if-joins (ite over the branch condition)")
			x.runFrom(m, j, 0)
			return
		}
	}
	for _, s := range arrived {
		x.runFrom(s, j, 0)
	}
}

// mergeStates: a and b descend from one state (common pc prefix of length base);
// a took the branch condition a.pc[base], b its negation.
func (x *Exec) mergeStates(a, b *State, base int) *State {
	if len(a.pc) <= base || len(b.pc) <= base {
		return nil
	}
	c := a.pc[base]
	if Not(c).S != b.pc[base].S {
		return nil
	}
	fa, fb := a.top(), b.top()
	if len(fa.defers) != len(fb.defers) || len(fa.loopOn) != len(fb.loopOn) {
		return nil
	}
	m := a.clone()
	m.pc = append([]Term(nil), a.pc[:base]...)
	m.assume(Imp(c, And(a.pc[base+1:]...)))
	m.assume(Imp(Not(c), And(b.pc[base+1:]...)))
	// heap
	for name, ta := range a.heap {
		tb, ok := b.heap[name]
		if !ok {
			tb = x.declare(name+"@0", ta.Sort)
		}
		if ta.S != tb.S {
			m.heap[name] = Ite(c, ta, tb)
		}
	}
	for name, tb := range b.heap {
		if _, ok := a.heap[name]; !ok {
			ta := x.declare(name+"@0", tb.Sort)
			if ta.S != tb.S {
				m.heap[name] = Ite(c, ta, tb)
			} else {
				m.heap[name] = tb
			}
		}
	}
	// cells
	for id, ca := range a.cells {
		cb, ok := b.cells[id]
		if !ok {
			continue
		}
		if ca.spilled != cb.spilled {
			return nil
		}
		if ca.spilled {
			if ca.ref.S != cb.ref.S {
				return nil
			}
			continue
		}
		mv, ok := mergeVal(c, ca.V, cb.V)
		if !ok {
			return nil
		}
		m.cells[id].V = mv
	}
	for id, cb := range b.cells {
		if _, ok := a.cells[id]; !ok {
			cc := *cb
			m.cells[id] = &cc
		}
	}
	// allocation watermark: at least both
	wa, wb := a.wmNow(), b.wmNow()
	if wa.S != wb.S {
		n := m.fresh("wm", SI)
		m.assume(And(Ge(n, wa), Ge(n, wb)))
		m.wm = n
		m.nalloc = 0
	}
	if b.steps > m.steps {
		m.steps = b.steps
	}
	return m
}

func mergeVal(c Term, a, b Val) (Val, bool) {
	switch va := a.(type) {
	case Term:
		vb, ok := b.(Term)
		if !ok || va.Sort != vb.Sort {
			return nil, false
		}
		return Ite(c, va, vb), true
	case *StructVal:
		vb, ok := b.(*StructVal)
		if !ok || len(va.F) != len(vb.F) {
			return nil, false
		}
		out := &StructVal{T: va.T, F: make([]Val, len(va.F))}
		for i := range va.F {
			if va.F[i] == nil && vb.F[i] == nil {
				continue
			}
			mv, ok := mergeVal(c, va.F[i], vb.F[i])
			if !ok {
				return nil, false
			}
			out.F[i] = mv
		}
		return out, true
	case nil:
		if b == nil {
			return nil, true
		}
		return nil, false
	case *PLocal:
		vb, ok := b.(*PLocal)
		if ok && vb.Cell == va.Cell && len(vb.Path) == len(va.Path) {
			return a, true
		}
		return nil, false
	case *PRef:
		vb, ok := b.(*PRef)
		if ok && len(va.Path) == 0 && len(vb.Path) == 0 {
			return &PRef{Ref: Ite(c, va.Ref, vb.Ref), Root: va.Root}, true
		}
		return nil, false
	}
	if a == b {
		return a, true
	}
	return nil, false
}

func isParamOrResultName(fn *ssa.Function, name string) bool {
	for _, p := range fn.Params {
		if p.Name() == name {
			return true
		}
	}
	rs := fn.Signature.Results()
	for i := 0; i < rs.Len(); i++ {
		if rs.At(i).Name() == name {
			return true
		}
	}
	return false
}
