package main

// Engine: loads /repo, indexes functions and contracts, drives verification of
// one function against its contract.

import (
	"fmt"
	"go/types"
	"os"
	"path/filepath"
	"sort"
	"strings"

	"golang.org/x/tools/go/packages"
	"golang.org/x/tools/go/ssa"
	"golang.org/x/tools/go/ssa/ssautil"
)

const repoModule = "github.com/Trendyol/go-dcp"

type Engine struct {
	repoDir   string
	prog      *ssa.Program
	pkgs      []*packages.Package
	allPkgs   map[string]*packages.Package
	ssaPkgs   map[string]*ssa.Package
	contracts map[string]*Contract
	specFiles []*SpecFile
	pures     map[string]*PureDef
	ghosts    map[string]*GhostDef
	externs   map[string]externFn
	logKeys   map[string]bool
	callSigs  map[string]*callSig
	callRets  map[string][]types.Type
	funcs     map[string]*ssa.Function
	funcIDs   map[string]int
	typeIDs   map[string]int
	strLits   map[string]int
	loadSecs  float64
}

func NewEngine(repoDir string) *Engine {
	eng := &Engine{repoDir: repoDir, contracts: map[string]*Contract{}, pures: map[string]*PureDef{}, ghosts: map[string]*GhostDef{},
		logKeys: map[string]bool{}, callSigs: map[string]*callSig{}, callRets: map[string][]types.Type{}, funcs: map[string]*ssa.Function{}, funcIDs: map[string]int{},
		typeIDs: map[string]int{}, strLits: map[string]int{}, allPkgs: map[string]*packages.Package{}, ssaPkgs: map[string]*ssa.Package{}}
	eng.initExterns()
	return eng
}

// Load type-checks the given /repo packages (with tag verif) and builds SSA.
func (eng *Engine) Load(patterns []string) error {
	cfg := &packages.Config{Mode: packages.LoadAllSyntax, Dir: eng.repoDir, BuildFlags: []string{"-tags=verif"},
		Env: append(os.Environ(), "GOFLAGS=-mod=mod", "GOPROXY=off", "GOSUMDB=off", "GOTOOLCHAIN=local")}
	pkgs, err := packages.Load(cfg, patterns...)
	if err != nil {
		return err
	}
	var errs []string
	packages.Visit(pkgs, nil, func(p *packages.Package) {
		eng.allPkgs[p.PkgPath] = p
		if strings.HasPrefix(p.PkgPath, repoModule) {
			for _, e := range p.Errors {
				errs = append(errs, e.Error())
			}
		}
	})
	if len(errs) > 0 {
		return fmt.Errorf("type errors in /repo: %s", strings.Join(errs, "; "))
	}
	eng.pkgs = pkgs
	prog, _ := ssautil.AllPackages(pkgs, ssa.NaiveForm)
	eng.prog = prog
	for _, sp := range prog.AllPackages() {
		if strings.HasPrefix(sp.Pkg.Path(), repoModule) {
			sp.Build()
			eng.ssaPkgs[sp.Pkg.Path()] = sp
		}
	}
	// index functions of repo packages
	for _, sp := range eng.ssaPkgs {
		for _, m := range sp.Members {
			switch v := m.(type) {
			case *ssa.Function:
				eng.indexFunc(v)
			case *ssa.Type:
				for _, t := range []types.Type{v.Type(), types.NewPointer(v.Type())} {
					ms := prog.MethodSets.MethodSet(t)
					for i := 0; i < ms.Len(); i++ {
						if f := prog.MethodValue(ms.At(i)); f != nil && f.Pkg == sp {
							eng.indexFunc(f)
						}
					}
				}
			}
		}
	}
	// contract files
	for path, sp := range eng.ssaPkgs {
		rel := strings.TrimPrefix(strings.TrimPrefix(path, repoModule), "/")
		files, _ := filepath.Glob(filepath.Join(eng.repoDir, rel, "verif_contracts*.go"))
		sort.Strings(files)
		for _, file := range files {
			sf, err := ParseSpecFile(file, path)
			if err != nil {
				return err
			}
			eng.specFiles = append(eng.specFiles, sf)
			for n, p := range sf.Pures {
				eng.pures[n] = p
			}
			for _, g := range sf.Ghosts {
				eng.ghosts[g.Name] = g
			}
			for _, c := range sf.Contracts {
				key := c.Key
				if c.Kind == "func" {
					key = sp.Pkg.Name() + "." + c.Key
				}
				if _, dup := eng.contracts[key]; dup {
					return fmt.Errorf("%s:%d: duplicate contract for %s", c.File, c.Line, key)
				}
				eng.contracts[key] = c
			}
		}
	}
	// call log keys mentioned by any contract
	for _, sf := range eng.specFiles {
		for _, c := range sf.Contracts {
			eng.collectKeys(c)
		}
		for _, p := range sf.Pures {
			collectCallKeys(p.Body, eng.logKeys)
		}
	}
	eng.indexCallSigs()
	eng.scanConstGlobals()
	return nil
}

func (eng *Engine) collectKeys(c *Contract) {
	for _, l := range c.Lets {
		collectCallKeys(l.E, eng.logKeys)
	}
	for _, cl := range c.Clauses {
		if cl.E != nil {
			collectCallKeys(cl.E, eng.logKeys)
		}
		for _, l := range cl.Locs {
			collectCallKeys(l, eng.logKeys)
		}
	}
	for _, lp := range c.Loops {
		for _, cl := range lp.Invariants {
			collectCallKeys(cl.E, eng.logKeys)
		}
		for _, cl := range lp.Modifies {
			for _, l := range cl.Locs {
				collectCallKeys(l, eng.logKeys)
			}
		}
	}
}

func (eng *Engine) indexFunc(f *ssa.Function) {
	eng.funcs[funcKey(f)] = f
	for _, a := range f.AnonFuncs {
		eng.indexFunc(a)
	}
}

func (eng *Engine) indexCallSigs() {
	var visit func(f *ssa.Function)
	seen := map[*ssa.Function]bool{}
	visit = func(f *ssa.Function) {
		if seen[f] {
			return
		}
		seen[f] = true
		for _, b := range f.Blocks {
			for _, in := range b.Instrs {
				if mc, ok := in.(*ssa.MakeClosure); ok {
					if cf, ok := mc.Fn.(*ssa.Function); ok {
						if _, have := eng.funcs[funcKey(cf)]; !have {
							eng.funcs[funcKey(cf)] = cf
						}
					}
				}
				var cc *ssa.CallCommon
				prefix := ""
				switch v := in.(type) {
				case *ssa.Call:
					cc = &v.Call
				case *ssa.Go:
					cc = &v.Call
					prefix = "go:"
				case *ssa.Defer:
					cc = &v.Call
				default:
					continue
				}
				x := &Exec{eng: eng}
				key := prefix + x.calleeKey(nil, nil, cc)
				if _, ok := eng.callSigs[key]; ok {
					continue
				}
				sig := &callSig{}
				if cc.IsInvoke() {
					sig.names = append(sig.names, "recv")
					sig.types = append(sig.types, cc.Value.Type())
					ps := cc.Signature().Params()
					for i := 0; i < ps.Len(); i++ {
						sig.names = append(sig.names, ps.At(i).Name())
						sig.types = append(sig.types, ps.At(i).Type())
					}
				} else {
					if prefix == "go:" {
						if _, isClo := cc.Value.(*ssa.MakeClosure); isClo {
							sig.names = append(sig.names, "fn")
							sig.types = append(sig.types, cc.Value.Type())
						}
					}
					var names []string
					if fn, ok := cc.Value.(*ssa.Function); ok {
						for _, p := range fn.Params {
							names = append(names, p.Name())
						}
					} else if mc, ok := cc.Value.(*ssa.MakeClosure); ok {
						for _, p := range mc.Fn.(*ssa.Function).Params {
							names = append(names, p.Name())
						}
					}
					ps := cc.Signature().Params()
					off := 0
					if cc.Signature().Recv() != nil {
						off = 1
					}
					for i, a := range cc.Args {
						n := ""
						if i < len(names) {
							n = names[i]
						} else if i-off >= 0 && i-off < ps.Len() {
							n = ps.At(i - off).Name()
						}
						sig.names = append(sig.names, n)
						sig.types = append(sig.types, a.Type())
					}
				}
				eng.callSigs[key] = sig
				var rts []types.Type
				rs := cc.Signature().Results()
				for i := 0; i < rs.Len(); i++ {
					rts = append(rts, rs.At(i).Type())
				}
				eng.callRets[key] = rts
			}
		}
		for _, a := range f.AnonFuncs {
			visit(a)
		}
	}
	for _, f := range eng.funcs {
		visit(f)
	}
	eng.callSigs["select.case"] = &callSig{names: []string{"index", "ch"}, types: []types.Type{types.Typ[types.Int], types.Typ[types.Int]}}
}

// resultTypes: result types of the calls logged under key; when no call site is left in the code the
// signature of the named function itself is used.
func (eng *Engine) resultTypes(key string) []types.Type {
	if rt := eng.callRets[key]; rt != nil {
		return rt
	}
	if fn := eng.funcByKey(key); fn != nil {
		var rts []types.Type
		rs := fn.Signature.Results()
		for i := 0; i < rs.Len(); i++ {
			rts = append(rts, rs.At(i).Type())
		}
		return rts
	}
	return nil
}

func (eng *Engine) inRepo(fn *ssa.Function) bool {
	f := fn
	for f.Parent() != nil {
		f = f.Parent()
	}
	if f.Origin() != nil {
		f = f.Origin()
	}
	if f.Pkg != nil {
		return strings.HasPrefix(f.Pkg.Pkg.Path(), repoModule)
	}
	if o := f.Object(); o != nil && o.Pkg() != nil {
		return strings.HasPrefix(o.Pkg().Path(), repoModule)
	}
	return false
}

func (eng *Engine) inRepoSynthetic(fn *ssa.Function) bool {
	if o := fn.Object(); o != nil && o.Pkg() != nil {
		return strings.HasPrefix(o.Pkg().Path(), repoModule)
	}
	return false
}

func (eng *Engine) contractFor(fn *ssa.Function) *Contract {
	return eng.contracts[funcKey(fn)]
}

func (eng *Engine) contractByKey(key string) *Contract {
	return eng.contracts[key]
}

func (eng *Engine) funcByKey(key string) *ssa.Function {
	if f, ok := eng.funcs[key]; ok {
		return f
	}
	return nil
}

func (eng *Engine) funcID(fn *ssa.Function) Term {
	k := funcKey(fn)
	id, ok := eng.funcIDs[k]
	if !ok {
		id = 100 + len(eng.funcIDs)
		eng.funcIDs[k] = id
	}
	return TInt(int64(id))
}

func (eng *Engine) typeID(t types.Type) Term {
	k := typeName(types.Unalias(t))
	id, ok := eng.typeIDs[k]
	if !ok {
		id = 1 + len(eng.typeIDs)
		eng.typeIDs[k] = id
	}
	return TInt(int64(id))
}

func (eng *Engine) strLit(x *Exec, s string) Term {
	if s == "" {
		return TInt(0)
	}
	id, ok := eng.strLits[s]
	if !ok {
		id = 1000 + len(eng.strLits)
		eng.strLits[s] = id
	}
	return TInt(int64(id))
}

// strConcat builds a+b in a normal form: concatenations are flattened and re-nested to the
// right, "" is dropped and adjacent literals are joined into one literal, so that the value does
// not depend on how the source groups or pre-computes the pieces.
func (eng *Engine) strConcat(x *Exec, a, b Term) Term {
	atoms := append(concatAtoms(a), concatAtoms(b)...)
	var out []Term
	for _, t := range atoms {
		if t.S == "0" {
			continue
		}
		if n := len(out); n > 0 {
			if l1, ok1 := eng.litString(out[n-1]); ok1 {
				if l2, ok2 := eng.litString(t); ok2 {
					out[n-1] = eng.strLit(x, l1+l2)
					continue
				}
			}
		}
		out = append(out, t)
	}
	if len(out) == 0 {
		return TInt(0)
	}
	r := out[len(out)-1]
	for i := len(out) - 2; i >= 0; i-- {
		r = UF(SI, "str.concat", out[i], r)
	}
	return r
}

// litString: the Go string a literal id stands for.
func (eng *Engine) litString(t Term) (string, bool) {
	n, ok := litVal(t)
	if !ok || !n.IsInt64() || n.Int64() < 1000 {
		return "", false
	}
	for s, id := range eng.strLits {
		if int64(id) == n.Int64() {
			return s, true
		}
	}
	return "", false
}

// concatAtoms flattens nested (str.concat a b) terms.
func concatAtoms(t Term) []Term {
	const p = "(str.concat "
	if !strings.HasPrefix(t.S, p) {
		return []Term{t}
	}
	body := t.S[len(p) : len(t.S)-1]
	depth, cut := 0, -1
	for i, c := range body {
		switch c {
		case '(':
			depth++
		case ')':
			depth--
		case ' ':
			if depth == 0 && cut < 0 {
				cut = i
			}
		}
	}
	if cut < 0 {
		return []Term{t}
	}
	return append(concatAtoms(Term{body[:cut], SI}), concatAtoms(Term{body[cut+1:], SI})...)
}

func (eng *Engine) strHasPrefix(x *Exec, a, b Term) Term {
	return UF(SB, "str.hasprefix", a, b)
}

func (eng *Engine) ghost(name string) *GhostDef { return eng.ghosts[name] }

func (eng *Engine) typesPkg(path string) *types.Package {
	if p, ok := eng.allPkgs[path]; ok {
		return p.Types
	}
	return nil
}

func (eng *Engine) lookupPkg(from *types.Package, name string) *types.Package {
	if from != nil {
		if from.Name() == name {
			return from
		}
		for _, imp := range from.Imports() {
			if imp.Name() == name {
				return imp
			}
		}
	}
	var cands []string
	for path, p := range eng.allPkgs {
		if p.Types != nil && p.Types.Name() == name {
			cands = append(cands, path)
		}
	}
	sort.Strings(cands)
	for _, c := range cands {
		if strings.HasPrefix(c, repoModule) {
			return eng.allPkgs[c].Types
		}
	}
	if len(cands) > 0 {
		return eng.allPkgs[cands[0]].Types
	}
	return nil
}

func (eng *Engine) lookupType(from *types.Package, pkgName, name string) types.Type {
	var p *types.Package
	if pkgName == "" {
		p = from
	} else {
		p = eng.lookupPkg(from, pkgName)
	}
	if p == nil {
		return nil
	}
	if o := p.Scope().Lookup(name); o != nil {
		if tn, ok := o.(*types.TypeName); ok {
			return tn.Type()
		}
	}
	return nil
}

// ---------- verification of one function ----------

type FuncResult struct {
	Key       string
	Contract  *Contract
	Queries   []*Query
	Undecided string
	Paths     int
	Abstract  []string
	Inlined   []string
	Trusted   []string
	Returns   int
	PanicEnds int
}

func (eng *Engine) VerifyFunc(fn *ssa.Function, c *Contract) (res *FuncResult) {
	key := funcKey(fn)
	res = &FuncResult{Key: key, Contract: c}
	x := &Exec{eng: eng, fn: fn, contract: c, decls: map[string]string{}, seenTC: map[string]map[*State]bool{}, maxPaths: 4096,
		oblPrefix: key, inlined: map[string]bool{}, reached: map[string]bool{}}
	defer func() {
		res.Queries = x.queries
		res.Paths = x.paths
		res.Abstract = setList(x.abstract)
		res.Inlined = setList(x.inlined)
		res.Trusted = setList(x.trusted)
		if r := recover(); r != nil {
			if u, ok := r.(unsupported); ok {
				res.Undecided = u.msg
				return
			}
			if se, ok := r.(specErr); ok {
				res.Undecided = "contract error: " + se.msg
				return
			}
			panic(r)
		}
	}()
	if len(fn.Blocks) == 0 {
		unsup("function %s has no body", key)
	}
	st := &State{x: x, heap: map[string]Term{}, cells: map[int]*cell{}}
	st.wm = x.declare("wm0", SI)
	st.assume(Ge(st.wm, TInt(0)))
	var args []Val
	for _, p := range fn.Params {
		args = append(args, st.freshVal("p."+p.Name(), p.Type()))
	}
	var bind []Val
	for _, fv := range fn.FreeVars {
		// a captured variable: pointer to a cell that exists before the call
		bind = append(bind, st.freshTyped("fv."+fv.Name(), fv.Type()))
		st.assume(Neq(bind[len(bind)-1].(Term), TInt(0)))
	}
	// captured variables are distinct cells
	for i := range bind {
		for j := i + 1; j < len(bind); j++ {
			st.assume(Neq(bind[i].(Term), bind[j].(Term)))
		}
	}
	fr := x.pushFrame(st, fn, args, bind, 0)
	fr.contract = c
	x.paths = 1
	x.replay = eng.replayInfo(st, fn, args)
	// preconditions
	e := x.envFor(st, fr, c)
	for _, cl := range c.ByKind("requires") {
		st.assume(x.safeAssume(e, cl))
	}
	for _, cl := range c.ByKind("domain") {
		st.assume(x.safeAssume(e, cl))
	}
	x.entryHeap = st.snapshot()
	x.entryWM = st.wmNow()
	x.queries = append(x.queries, &Query{Name: key + "/vacuity.requires", Detail: "requires is satisfiable", Assume: append([]Term(nil), st.pc...), Goal: TFalse, Decls: x.decls, ExpectSat: true})
	fr.onReturn = func(st2 *State, rv Val, panicked bool) {
		fr2 := st2.frames[0]
		if panicked {
			res.PanicEnds++
			for _, cl := range c.ByKind("returns") {
				pre := x.evalEntryBool(st2, cl)
				x.oblige(st2, clauseName(cl), cl.Props, Not(pre), "explicit panic reached although "+cl.Src)
			}
			// onpanic: what must hold (in the state reached) whenever the function panics explicitly
			for _, cl := range c.ByKind("onpanic") {
				g := x.evalClauseBool(st2, fr2, cl, nil, 1)
				x.oblige(st2, clauseName(cl), cl.Props, g, "at an explicit panic: "+cl.Src)
			}
			return
		}
		res.Returns++
		rt := fn.Signature.Results()
		tvs := resultTVs(rv, rt)
		firstQ := len(x.queries)
		defer func() {
			// counterexamples of the obligations of this return can be re-run on the real function
			if x.replay == nil {
				return
			}
			ri := x.replay.withResults(st2, tvs)
			if ri == nil {
				return
			}
			for _, q := range x.queries[firstQ:] {
				if !q.ExpectSat && !strings.HasSuffix(q.Name, "/frame") {
					q.Replay = ri
				}
			}
		}()
		// hints: proved at the return point, then available to the ensures
		for _, cl := range c.ByKind("hint") {
			g := x.evalClauseBool(st2, fr2, cl, tvs, 1)
			x.oblige(st2, clauseName(cl), cl.Props, g, cl.Src)
			st2.assume(x.evalClauseBool(st2, fr2, cl, tvs, -1))
		}
		for _, cl := range c.ByKind("ensures") {
			g := x.evalClauseBool(st2, fr2, cl, tvs, 1)
			x.oblige(st2, clauseName(cl), cl.Props, g, cl.Src)
		}
		// check: postconditions over the function's own locals; proved here, never assumed by callers
		for _, cl := range c.ByKind("check") {
			g := x.evalClauseBool(st2, fr2, cl, tvs, 1)
			x.oblige(st2, clauseName(cl), cl.Props, g, cl.Src)
		}
		for _, cl := range c.ByKind("panics") {
			pre := x.evalEntryBool(st2, cl)
			x.oblige(st2, clauseName(cl), cl.Props, Not(pre), "normal return although "+cl.Src)
		}
		if !modifiesAnything(c) {
			x.frameCheck(st2, fr2, x.entryHeap, x.entryWM, c.ByKind("modifies"), x.entryHeap, "frame")
		}
		x.queries = append(x.queries, &Query{Name: key + "/smoke.return", Detail: "a normal return is reachable", Assume: append([]Term(nil), st2.pc...), Goal: TFalse, Decls: x.decls, ExpectSat: true})
	}
	x.runFrom(st, fn.Blocks[0], 0)
	return res
}

// modifiesAnything: `modifies anything` declares no frame (callers lose the whole heap).
func modifiesAnything(c *Contract) bool {
	for _, cl := range c.ByKind("modifies") {
		if strings.TrimSpace(cl.Src) == "anything" {
			return true
		}
	}
	return false
}

func setList(m map[string]bool) []string {
	var out []string
	for k := range m {
		out = append(out, k)
	}
	sort.Strings(out)
	return out
}
