package main

// SMT term construction with light simplification. Every scalar Go value is an
// SMT Int or Bool; heaps are SMT arrays. Terms are kept as strings.

import (
	"fmt"
	"math/big"
	"strings"
)

const (
	SI = "Int"
	SB = "Bool"
)

func ArrSort(k, v string) string { return "(Array " + k + " " + v + ")" }

type Term struct {
	S    string
	Sort string
}

func (t Term) String() string { return t.S }

var (
	TTrue  = Term{"true", SB}
	TFalse = Term{"false", SB}
)

func TBool(b bool) Term {
	if b {
		return TTrue
	}
	return TFalse
}

func TInt(n int64) Term { return TBig(big.NewInt(n)) }

func TBig(n *big.Int) Term {
	if n.Sign() < 0 {
		return Term{"(- " + new(big.Int).Neg(n).String() + ")", SI}
	}
	return Term{n.String(), SI}
}

func TVar(name, sort string) Term { return Term{name, sort} }

// litVal returns the integer value of a literal term.
func litVal(t Term) (*big.Int, bool) {
	if t.Sort != SI {
		return nil, false
	}
	s := t.S
	neg := false
	if strings.HasPrefix(s, "(- ") && strings.HasSuffix(s, ")") {
		neg = true
		s = s[3 : len(s)-1]
	}
	if len(s) == 0 {
		return nil, false
	}
	for _, c := range s {
		if c < '0' || c > '9' {
			return nil, false
		}
	}
	n, ok := new(big.Int).SetString(s, 10)
	if !ok {
		return nil, false
	}
	if neg {
		n.Neg(n)
	}
	return n, true
}

func app(sort, op string, args ...Term) Term {
	var b strings.Builder
	b.WriteString("(")
	b.WriteString(op)
	for _, a := range args {
		b.WriteString(" ")
		b.WriteString(a.S)
	}
	b.WriteString(")")
	return Term{b.String(), sort}
}

func Not(a Term) Term {
	switch a.S {
	case "true":
		return TFalse
	case "false":
		return TTrue
	}
	if strings.HasPrefix(a.S, "(not ") {
		return Term{a.S[5 : len(a.S)-1], SB}
	}
	return app(SB, "not", a)
}

func And(ts ...Term) Term {
	var out []Term
	for _, t := range ts {
		if t.S == "true" {
			continue
		}
		if t.S == "false" {
			return TFalse
		}
		out = append(out, t)
	}
	switch len(out) {
	case 0:
		return TTrue
	case 1:
		return out[0]
	}
	return app(SB, "and", out...)
}

func Or(ts ...Term) Term {
	var out []Term
	for _, t := range ts {
		if t.S == "false" {
			continue
		}
		if t.S == "true" {
			return TTrue
		}
		out = append(out, t)
	}
	switch len(out) {
	case 0:
		return TFalse
	case 1:
		return out[0]
	}
	return app(SB, "or", out...)
}

func Imp(a, b Term) Term {
	if a.S == "true" {
		return b
	}
	if a.S == "false" || b.S == "true" {
		return TTrue
	}
	return app(SB, "=>", a, b)
}

func Eq(a, b Term) Term {
	if a.S == b.S {
		return TTrue
	}
	if x, ok := litVal(a); ok {
		if y, ok := litVal(b); ok {
			return TBool(x.Cmp(y) == 0)
		}
	}
	if a.Sort == SB && b.Sort == SB {
		if a.S == "true" {
			return b
		}
		if b.S == "true" {
			return a
		}
		if a.S == "false" {
			return Not(b)
		}
		if b.S == "false" {
			return Not(a)
		}
	}
	return app(SB, "=", a, b)
}

func Neq(a, b Term) Term { return Not(Eq(a, b)) }

func Ite(c, a, b Term) Term {
	if c.S == "true" {
		return a
	}
	if c.S == "false" {
		return b
	}
	if a.S == b.S {
		return a
	}
	return app(a.Sort, "ite", c, a, b)
}

func cmpOp(op string, a, b Term) Term {
	if x, ok := litVal(a); ok {
		if y, ok := litVal(b); ok {
			c := x.Cmp(y)
			switch op {
			case "<":
				return TBool(c < 0)
			case "<=":
				return TBool(c <= 0)
			case ">":
				return TBool(c > 0)
			case ">=":
				return TBool(c >= 0)
			}
		}
	}
	return app(SB, op, a, b)
}

func Lt(a, b Term) Term { return cmpOp("<", a, b) }
func Le(a, b Term) Term { return cmpOp("<=", a, b) }
func Gt(a, b Term) Term { return cmpOp(">", a, b) }
func Ge(a, b Term) Term { return cmpOp(">=", a, b) }

func Add(a, b Term) Term {
	if x, ok := litVal(a); ok {
		if y, ok := litVal(b); ok {
			return TBig(new(big.Int).Add(x, y))
		}
		if x.Sign() == 0 {
			return b
		}
	}
	if y, ok := litVal(b); ok && y.Sign() == 0 {
		return a
	}
	return app(SI, "+", a, b)
}

func Sub(a, b Term) Term {
	if x, ok := litVal(a); ok {
		if y, ok := litVal(b); ok {
			return TBig(new(big.Int).Sub(x, y))
		}
	}
	if y, ok := litVal(b); ok && y.Sign() == 0 {
		return a
	}
	return app(SI, "-", a, b)
}

func Mul(a, b Term) Term {
	if x, ok := litVal(a); ok {
		if y, ok := litVal(b); ok {
			return TBig(new(big.Int).Mul(x, y))
		}
	}
	return app(SI, "*", a, b)
}

func Neg(a Term) Term { return Sub(TInt(0), a) }

func Sel(arr, idx Term) Term {
	// value sort = second component of "(Array K V)"
	vs := arrValSort(arr.Sort)
	return app(vs, "select", arr, idx)
}

func Sto(arr, idx, v Term) Term { return app(arr.Sort, "store", arr, idx, v) }

func arrValSort(s string) string {
	// s = "(Array K V)" where K, V may be nested
	if !strings.HasPrefix(s, "(Array ") {
		panic("not an array sort: " + s)
	}
	body := s[len("(Array ") : len(s)-1]
	// split first sort
	depth := 0
	for i, c := range body {
		switch c {
		case '(':
			depth++
		case ')':
			depth--
		case ' ':
			if depth == 0 {
				return body[i+1:]
			}
		}
	}
	panic("bad array sort: " + s)
}

func arrKeySort(s string) string {
	body := s[len("(Array ") : len(s)-1]
	depth := 0
	for i, c := range body {
		switch c {
		case '(':
			depth++
		case ')':
			depth--
		case ' ':
			if depth == 0 {
				return body[:i]
			}
		}
	}
	panic("bad array sort: " + s)
}

func Forall(vars []Term, body Term) Term {
	if len(vars) == 0 || body.S == "true" {
		return body
	}
	var b strings.Builder
	b.WriteString("(forall (")
	for _, v := range vars {
		fmt.Fprintf(&b, "(%s %s)", v.S, v.Sort)
	}
	b.WriteString(") ")
	b.WriteString(body.S)
	b.WriteString(")")
	return Term{b.String(), SB}
}

func Exists(vars []Term, body Term) Term {
	if len(vars) == 0 {
		return body
	}
	var b strings.Builder
	b.WriteString("(exists (")
	for _, v := range vars {
		fmt.Fprintf(&b, "(%s %s)", v.S, v.Sort)
	}
	b.WriteString(") ")
	b.WriteString(body.S)
	b.WriteString(")")
	return Term{b.String(), SB}
}

// sanitize makes a string usable inside a simple SMT-LIB symbol.
func sanitize(s string) string {
	var b strings.Builder
	for _, c := range s {
		switch {
		case c >= 'a' && c <= 'z', c >= 'A' && c <= 'Z', c >= '0' && c <= '9', c == '_', c == '.', c == '!', c == '$':
			b.WriteRune(c)
		case c == '*':
			b.WriteString("ptr.")
		case c == '[':
			b.WriteString("_of_")
		case c == ']', c == ' ':
		case c == '/', c == ':':
			b.WriteRune('.')
		default:
			b.WriteRune('_')
		}
	}
	return b.String()
}
