package main

// Contract files and the contract expression language.
//
// Contracts live in /repo/<pkg>/verif_contracts.go (build tag verif, comments
// only). A block starts with `//@ func <key>`, `//@ iface <Type.Method>`,
// `//@ extern <key>`, `//@ pure ...`, `//@ ghost ...` and runs until the next
// header. Inside a block each `//@ <keyword>...` line is a clause; a line whose
// first word is not a keyword continues the previous clause.

import (
	"fmt"
	"math/big"
	"os"
	"regexp"
	"strconv"
	"strings"
)

// ---------- expression AST ----------

type Expr interface{}

type (
	EIdent struct{ Name string }
	EInt   struct{ V *big.Int }
	EStr   struct{ V string }
	EBool  struct{ V bool }
	ENil   struct{}
	EUn    struct {
		Op string
		X  Expr
	}
	EBin struct {
		Op   string
		X, Y Expr
	}
	ESel struct {
		X    Expr
		Name string
	}
	EIdx  struct{ X, I Expr }
	ECall struct {
		Fn   string
		Args []Expr
	}
	QVar struct {
		Name string
		Type string
	}
	EQuant struct {
		All  bool
		Vars []QVar
		Body Expr
	}
	ESliceE struct{ X, Lo, Hi Expr }
)

// ---------- tokenizer ----------

type tok struct {
	k string // "id", "int", "str", "op", "eof"
	s string
}

func tokenize(src string) ([]tok, error) {
	var ts []tok
	i := 0
	for i < len(src) {
		c := src[i]
		switch {
		case c == ' ' || c == '\t' || c == '\n':
			i++
		case c == '/' && i+1 < len(src) && src[i+1] == '/':
			i = len(src) // trailing comment
		case isIdStart(c):
			j := i
			for j < len(src) && (isIdStart(src[j]) || (src[j] >= '0' && src[j] <= '9') || src[j] == '$') {
				j++
			}
			ts = append(ts, tok{"id", src[i:j]})
			i = j
		case c >= '0' && c <= '9':
			j := i
			if c == '0' && j+1 < len(src) && (src[j+1] == 'x' || src[j+1] == 'X') {
				j += 2
				for j < len(src) && strings.ContainsRune("0123456789abcdefABCDEF_", rune(src[j])) {
					j++
				}
			} else {
				for j < len(src) && ((src[j] >= '0' && src[j] <= '9') || src[j] == '_') {
					j++
				}
			}
			ts = append(ts, tok{"int", src[i:j]})
			i = j
		case c == '"':
			j := i + 1
			for j < len(src) && src[j] != '"' {
				if src[j] == '\\' {
					j++
				}
				j++
			}
			if j >= len(src) {
				return nil, fmt.Errorf("unterminated string")
			}
			s, err := strconv.Unquote(src[i : j+1])
			if err != nil {
				return nil, err
			}
			ts = append(ts, tok{"str", s})
			i = j + 1
		default:
			ops := []string{"<==>", "==>", "::", "==", "!=", "<=", ">=", "&&", "||", "++", "<", ">", "+", "-", "*", "/", "%", "!", "(", ")", "[", "]", ",", ".", ":", "#", "?", "{", "}"}
			found := false
			for _, op := range ops {
				if strings.HasPrefix(src[i:], op) {
					ts = append(ts, tok{"op", op})
					i += len(op)
					found = true
					break
				}
			}
			if !found {
				return nil, fmt.Errorf("unexpected character %q", c)
			}
		}
	}
	ts = append(ts, tok{"eof", ""})
	return ts, nil
}

func isIdStart(c byte) bool {
	return c == '_' || (c >= 'a' && c <= 'z') || (c >= 'A' && c <= 'Z')
}

// ---------- parser ----------

type parser struct {
	ts  []tok
	pos int
	src string
}

func ParseExpr(src string) (e Expr, err error) {
	ts, err := tokenize(src)
	if err != nil {
		return nil, fmt.Errorf("%v in %q", err, src)
	}
	p := &parser{ts: ts, src: src}
	defer func() {
		if r := recover(); r != nil {
			if pe, ok := r.(parseErr); ok {
				err = fmt.Errorf("%s in %q", string(pe), src)
				return
			}
			panic(r)
		}
	}()
	e = p.expr()
	if p.peek().k != "eof" {
		p.fail("trailing tokens at %q", p.peek().s)
	}
	return e, nil
}

type parseErr string

func (p *parser) fail(f string, a ...interface{}) { panic(parseErr(fmt.Sprintf(f, a...))) }
func (p *parser) peek() tok                       { return p.ts[p.pos] }
func (p *parser) next() tok                       { t := p.ts[p.pos]; p.pos++; return t }
func (p *parser) isOp(s string) bool              { t := p.peek(); return t.k == "op" && t.s == s }
func (p *parser) accept(s string) bool {
	if p.isOp(s) {
		p.pos++
		return true
	}
	return false
}
func (p *parser) expect(s string) {
	if !p.accept(s) {
		p.fail("expected %q, got %q", s, p.peek().s)
	}
}

func (p *parser) expr() Expr {
	t := p.peek()
	if t.k == "id" && (t.s == "forall" || t.s == "exists") {
		p.next()
		q := &EQuant{All: t.s == "forall"}
		for {
			var names []string
			names = append(names, p.ident())
			// allow "j, k int"
			for p.accept(",") {
				names = append(names, p.ident())
			}
			ty := p.typeName()
			for _, n := range names {
				q.Vars = append(q.Vars, QVar{n, ty})
			}
			if p.accept("::") {
				break
			}
			p.expect(",")
		}
		q.Body = p.expr()
		return q
	}
	return p.impl()
}

func (p *parser) ident() string {
	t := p.next()
	if t.k != "id" {
		p.fail("expected identifier, got %q", t.s)
	}
	return t.s
}

func (p *parser) typeName() string {
	s := ""
	for {
		if p.accept("*") {
			s += "*"
		} else if p.isOp("[") && p.ts[p.pos+1].k == "op" && p.ts[p.pos+1].s == "]" {
			p.pos += 2
			s += "[]"
		} else {
			break
		}
	}
	s += p.ident()
	for p.accept(".") {
		s += "." + p.ident()
	}
	return s
}

func (p *parser) impl() Expr {
	l := p.or()
	if p.accept("==>") {
		r := p.expr() // right assoc; a quantifier may follow
		return &EBin{"==>", l, r}
	}
	if p.accept("<==>") {
		r := p.or()
		return &EBin{"<==>", l, r}
	}
	return l
}

func (p *parser) or() Expr {
	l := p.and()
	for p.accept("||") {
		l = &EBin{"||", l, p.and()}
	}
	return l
}

func (p *parser) and() Expr {
	l := p.cmp()
	for p.accept("&&") {
		l = &EBin{"&&", l, p.cmp()}
	}
	return l
}

func (p *parser) cmp() Expr {
	l := p.add()
	for _, op := range []string{"==", "!=", "<=", ">=", "<", ">"} {
		if p.accept(op) {
			r := p.add()
			e := Expr(&EBin{op, l, r})
			// chained comparison a <= b <= c
			for _, op2 := range []string{"<=", "<", ">=", ">"} {
				if p.accept(op2) {
					r2 := p.add()
					e = &EBin{"&&", e, &EBin{op2, r, r2}}
					r = r2
				}
			}
			return e
		}
	}
	return l
}

func (p *parser) add() Expr {
	l := p.mul()
	for {
		switch {
		case p.accept("+"):
			l = &EBin{"+", l, p.mul()}
		case p.accept("-"):
			l = &EBin{"-", l, p.mul()}
		default:
			return l
		}
	}
}

func (p *parser) mul() Expr {
	l := p.unary()
	for {
		switch {
		case p.accept("*"):
			l = &EBin{"*", l, p.unary()}
		case p.accept("/"):
			l = &EBin{"/", l, p.unary()}
		case p.accept("%"):
			l = &EBin{"%", l, p.unary()}
		default:
			return l
		}
	}
}

func (p *parser) unary() Expr {
	if t := p.peek(); t.k == "id" && (t.s == "forall" || t.s == "exists") {
		return p.expr()
	}
	switch {
	case p.accept("!"):
		return &EUn{"!", p.unary()}
	case p.accept("-"):
		return &EUn{"-", p.unary()}
	case p.accept("*"):
		return &EUn{"*", p.unary()}
	}
	return p.postfix()
}

func (p *parser) postfix() Expr {
	e := p.primary()
	for {
		switch {
		case p.accept("."):
			e = &ESel{e, p.ident()}
		case p.accept("["):
			var lo Expr
			if !p.isOp(":") {
				lo = p.expr()
			}
			if p.accept(":") {
				var hi Expr
				if !p.isOp("]") {
					hi = p.expr()
				}
				p.expect("]")
				e = &ESliceE{e, lo, hi}
			} else {
				p.expect("]")
				e = &EIdx{e, lo}
			}
		case p.isOp("("):
			id, ok := e.(*EIdent)
			if !ok {
				p.fail("call of non-identifier")
			}
			p.next()
			var args []Expr
			for !p.isOp(")") {
				args = append(args, p.expr())
				if !p.accept(",") {
					break
				}
			}
			p.expect(")")
			e = &ECall{id.Name, args}
		default:
			return e
		}
	}
}

func (p *parser) primary() Expr {
	t := p.next()
	switch t.k {
	case "id":
		switch t.s {
		case "true":
			return &EBool{true}
		case "false":
			return &EBool{false}
		case "nil":
			return &ENil{}
		}
		return &EIdent{t.s}
	case "int":
		n, ok := new(big.Int).SetString(strings.ReplaceAll(t.s, "_", ""), 0)
		if !ok {
			p.fail("bad integer %q", t.s)
		}
		return &EInt{n}
	case "str":
		return &EStr{t.s}
	case "op":
		if t.s == "(" {
			e := p.expr()
			p.expect(")")
			return e
		}
	}
	p.fail("unexpected token %q", t.s)
	return nil
}

// ---------- contract file model ----------

type Clause struct {
	Kind  string   // requires, ensures, panics, returns, modifies, assume
	Label string   // optional ".label"
	Props []string // optional [C01,C02]
	Src   string
	E     Expr   // parsed (for modifies: nil, see Locs)
	Locs  []Expr // modifies locations
	Line  int
}

type LoopSpec struct {
	N          string
	Invariants []*Clause
	Modifies   []*Clause
	Unroll     int // >0: unroll up to this many iterations, with unwinding obligation
}

// RelySpec: interference assumed at the direct calls of Key made by the function
// (other goroutines may act while the call is in flight).
type RelySpec struct {
	Key      string
	Modifies []*Clause
	Ensures  []*Clause
	Snap     string // label of the snapshot taken after the call returned
	PreSnap  string // label of the snapshot taken when the call is made (before the interference)
}

type LetDef struct {
	Name string
	E    Expr
}

type Contract struct {
	Kind     string // func, iface, extern
	Key      string
	Pkg      string // package path the file belongs to
	Props    []string
	Lets     []LetDef
	Clauses  []*Clause
	Loops    map[string]*LoopSpec
	NoPanic  bool // safety sweep: implicit panics are obligations
	Trusted  bool // contract is assumed (no body verified)
	Inline   bool
	NoVerify bool
	Flags    []string
	Relies   map[string]*RelySpec
	Reveal   []string
	File     string
	Line     int
	Params   []string // for iface/extern: parameter names; for func: the contract's names for the parameters, by position
	FreeVars []string // for closures: the contract's names for the captured variables, by position
}

func (c *Contract) ByKind(k string) []*Clause {
	var out []*Clause
	for _, cl := range c.Clauses {
		if cl.Kind == k {
			out = append(out, cl)
		}
	}
	return out
}

type PureDef struct {
	Opaque bool
	Bool   bool
	Name   string
	Params []QVar
	Body   Expr
}

type GhostDef struct {
	Name string
	Sort string // SMT sort
}

type SpecFile struct {
	Pkg       string
	Contracts []*Contract
	Pures     map[string]*PureDef
	Ghosts    []*GhostDef
}

var clauseHead = regexp.MustCompile(`^(requires|domain|ensures|check|hint|panics|returns|onpanic|modifies|assume|invariant|guarantee)((?:\.[A-Za-z0-9_]+)?)((?:\[[A-Za-z0-9, ]+\])?)\s+(.*)$`)

var keywords = map[string]bool{
	"func": true, "iface": true, "extern": true, "pure": true, "ghost": true, "props": true,
	"requires": true, "domain": true, "ensures": true, "check": true, "hint": true, "onpanic": true, "panics": true, "returns": true, "modifies": true,
	"assume": true, "invariant": true, "let": true, "loop": true, "nopanic": true,
	"trusted": true, "inline": true, "nonblocking": true, "merge": true, "reveal": true, "rely": true, "guarantee": true, "unroll": true, "params": true, "freevars": true, "noverify": true,
}

func firstWord(s string) string {
	s = strings.TrimSpace(s)
	for i, c := range s {
		if !(c == '_' || (c >= 'a' && c <= 'z') || (c >= 'A' && c <= 'Z')) {
			return s[:i]
		}
	}
	return s
}

// ParseSpecFile reads the //@ lines of one contract file.
func ParseSpecFile(path, pkgPath string) (*SpecFile, error) {
	data, err := os.ReadFile(path)
	if err != nil {
		return nil, err
	}
	return ParseSpecText(string(data), path, pkgPath)
}

func ParseSpecText(text, path, pkgPath string) (*SpecFile, error) {
	sf := &SpecFile{Pkg: pkgPath, Pures: map[string]*PureDef{}}
	type rawLine struct {
		s      string
		line   int
		indent bool // written as "//@   clause": belongs to the enclosing loop / rely block
	}
	var lines []rawLine
	for i, l := range strings.Split(text, "\n") {
		t := strings.TrimSpace(l)
		if !strings.HasPrefix(t, "//@") {
			continue
		}
		body := t[3:]
		if strings.TrimSpace(body) == "" {
			continue
		}
		w := firstWord(body)
		tb := strings.TrimSpace(body)
		after := ""
		if len(tb) > len(w) {
			after = tb[len(w) : len(w)+1]
		}
		if keywords[w] && (after == "" || after == " " || after == "." || after == "[") || len(lines) == 0 {
			lines = append(lines, rawLine{stripComment(tb), i + 1, strings.HasPrefix(body, "  ")})
		} else {
			lines[len(lines)-1].s += " " + stripComment(tb)
		}
	}
	var cur *Contract
	var curLoop *LoopSpec
	var curRely *RelySpec
	for _, rl := range lines {
		s := stripComment(rl.s)
		w := firstWord(s)
		if !rl.indent && w != "unroll" {
			// a clause at function level ends any loop / rely block
			if w != "loop" && w != "rely" {
				curLoop = nil
				curRely = nil
			}
		}
		rest := strings.TrimSpace(strings.TrimPrefix(s, w))
		errf := func(f string, a ...interface{}) error {
			return fmt.Errorf("%s:%d: %s", path, rl.line, fmt.Sprintf(f, a...))
		}
		switch w {
		case "func", "iface", "extern":
			cur = &Contract{Kind: w, Key: rest, Pkg: pkgPath, Loops: map[string]*LoopSpec{}, File: path, Line: rl.line}
			if w != "func" {
				cur.Trusted = true
			}
			curLoop = nil
			sf.Contracts = append(sf.Contracts, cur)
			continue
		case "pure":
			// pure name(a T, b T) = expr
			pd, err := parsePure(rest)
			if err != nil {
				return nil, errf("%v", err)
			}
			sf.Pures[pd.Name] = pd
			cur = nil
			continue
		case "ghost":
			f := strings.SplitN(rest, " ", 2)
			if len(f) != 2 {
				return nil, errf("ghost needs name and sort")
			}
			sf.Ghosts = append(sf.Ghosts, &GhostDef{f[0], strings.TrimSpace(f[1])})
			cur = nil
			continue
		}
		if cur == nil {
			return nil, errf("clause outside a block: %s", s)
		}
		switch w {
		case "props":
			cur.Props = append(cur.Props, strings.FieldsFunc(rest, func(r rune) bool { return r == ' ' || r == ',' })...)
		case "nopanic":
			cur.NoPanic = true
		case "reveal":
			cur.Reveal = append(cur.Reveal, strings.FieldsFunc(rest, func(r rune) bool { return r == ' ' || r == ',' })...)
		case "nonblocking":
			cur.Flags = append(cur.Flags, "nonblocking")
		case "merge":
			cur.Flags = append(cur.Flags, "merge")
		case "trusted":
			cur.Trusted = true
		case "inline":
			cur.Inline = true
		case "noverify":
			cur.NoVerify = true
		case "params":
			cur.Params = strings.FieldsFunc(rest, func(r rune) bool { return r == ' ' || r == ',' })
		case "freevars":
			cur.FreeVars = strings.FieldsFunc(rest, func(r rune) bool { return r == ' ' || r == ',' })
		case "let":
			i := strings.Index(rest, "=")
			if i < 0 {
				return nil, errf("let needs =")
			}
			e, err := ParseExpr(rest[i+1:])
			if err != nil {
				return nil, errf("%v", err)
			}
			cur.Lets = append(cur.Lets, LetDef{strings.TrimSpace(rest[:i]), e})
		case "rely":
			// rely <key> [snap <label>] [presnap <label>]
			f := strings.Fields(rest)
			if len(f) == 0 {
				return nil, errf("rely needs a call key")
			}
			curRely = &RelySpec{Key: strings.Trim(f[0], "\"")}
			for i := 1; i+1 < len(f); i += 2 {
				switch f[i] {
				case "snap":
					curRely.Snap = f[i+1]
				case "presnap":
					curRely.PreSnap = f[i+1]
				default:
					return nil, errf("rely: unknown option %s", f[i])
				}
			}
			if cur.Relies == nil {
				cur.Relies = map[string]*RelySpec{}
			}
			cur.Relies[curRely.Key] = curRely
			curLoop = nil
		case "loop":
			curRely = nil
			f := strings.Fields(rest)
			if len(f) == 0 {
				return nil, errf("loop needs an ordinal or closure suffix")
			}
			curLoop = &LoopSpec{N: f[0]}
			cur.Loops[f[0]] = curLoop
			if len(f) >= 3 && f[1] == "unroll" {
				curLoop.Unroll, _ = strconv.Atoi(f[2])
			}
		case "unroll":
			if curLoop == nil {
				return nil, errf("unroll outside loop")
			}
			curLoop.Unroll, _ = strconv.Atoi(rest)
		default:
			m := clauseHead.FindStringSubmatch(s)
			if m == nil {
				return nil, errf("cannot parse clause: %s", s)
			}
			cl := &Clause{Kind: m[1], Label: strings.TrimPrefix(m[2], "."), Src: m[4], Line: rl.line}
			if m[3] != "" {
				cl.Props = strings.FieldsFunc(m[3][1:len(m[3])-1], func(r rune) bool { return r == ' ' || r == ',' })
			}
			if cl.Kind == "modifies" {
				if strings.TrimSpace(cl.Src) != "nothing" && strings.TrimSpace(cl.Src) != "anything" {
					for _, part := range splitTop(cl.Src, ',') {
						e, err := ParseExpr(part)
						if err != nil {
							return nil, errf("%v", err)
						}
						cl.Locs = append(cl.Locs, e)
					}
				}
			} else {
				e, err := ParseExpr(cl.Src)
				if err != nil {
					return nil, errf("%v", err)
				}
				cl.E = e
			}
			switch {
			case curRely != nil && cl.Kind == "modifies":
				curRely.Modifies = append(curRely.Modifies, cl)
			case curRely != nil && cl.Kind == "guarantee":
				curRely.Ensures = append(curRely.Ensures, cl)
			case cl.Kind == "invariant":
				if curLoop == nil {
					return nil, errf("invariant outside loop")
				}
				curLoop.Invariants = append(curLoop.Invariants, cl)
			case cl.Kind == "modifies" && curLoop != nil:
				curLoop.Modifies = append(curLoop.Modifies, cl)
			default:
				if cl.Kind != "modifies" {
					curLoop = nil
				}
				curRely = nil
				cur.Clauses = append(cur.Clauses, cl)
			}
		}
	}
	for _, c := range sf.Contracts {
		count := map[string]int{}
		for _, cl := range c.Clauses {
			count[cl.Kind]++
			if cl.Label == "" {
				cl.Label = strconv.Itoa(count[cl.Kind])
			}
		}
	}
	return sf, nil
}

func stripComment(s string) string {
	// remove trailing " // ..." comments (not inside strings)
	inStr := false
	for i := 0; i+1 < len(s); i++ {
		if s[i] == '"' {
			inStr = !inStr
		}
		if !inStr && s[i] == '/' && s[i+1] == '/' {
			return strings.TrimSpace(s[:i])
		}
	}
	return s
}

func splitTop(s string, sep rune) []string {
	var out []string
	depth := 0
	last := 0
	for i, c := range s {
		switch c {
		case '(', '[':
			depth++
		case ')', ']':
			depth--
		default:
			if c == sep && depth == 0 {
				out = append(out, s[last:i])
				last = i + 1
			}
		}
	}
	out = append(out, s[last:])
	return out
}

func parsePure(s string) (*PureDef, error) {
	i := strings.Index(s, "(")
	j := strings.Index(s, ")")
	k := strings.Index(s, "=")
	if i < 0 || j < i || k < j {
		return nil, fmt.Errorf("bad pure definition")
	}
	pd := &PureDef{Name: strings.TrimSpace(s[:i])}
	if strings.HasPrefix(pd.Name, "opaque ") {
		pd.Opaque = true
		pd.Name = strings.TrimSpace(strings.TrimPrefix(pd.Name, "opaque "))
	}
	var pending []string
	for _, part := range strings.Split(s[i+1:j], ",") {
		f := strings.Fields(part)
		switch len(f) {
		case 1:
			pending = append(pending, f[0])
		case 2:
			pending = append(pending, f[0])
			for _, n := range pending {
				pd.Params = append(pd.Params, QVar{n, f[1]})
			}
			pending = nil
		case 0:
		default:
			return nil, fmt.Errorf("bad pure parameter %q", part)
		}
	}
	for _, n := range pending {
		pd.Params = append(pd.Params, QVar{n, "int"})
	}
	e, err := ParseExpr(s[k+1:])
	if err != nil {
		return nil, err
	}
	pd.Bool = strings.TrimSpace(s[j+1:k]) == "bool"
	pd.Body = e
	return pd, nil
}

// callNames collects every name used in calls(K)/arg(K,..)/sent(..) so the
// executor knows which call logs to maintain.
func collectCallKeys(e Expr, out map[string]bool) {
	switch x := e.(type) {
	case *EUn:
		collectCallKeys(x.X, out)
	case *EBin:
		collectCallKeys(x.X, out)
		collectCallKeys(x.Y, out)
	case *ESel:
		collectCallKeys(x.X, out)
	case *EIdx:
		collectCallKeys(x.X, out)
		collectCallKeys(x.I, out)
	case *ESliceE:
		collectCallKeys(x.X, out)
		if x.Lo != nil {
			collectCallKeys(x.Lo, out)
		}
		if x.Hi != nil {
			collectCallKeys(x.Hi, out)
		}
	case *EQuant:
		collectCallKeys(x.Body, out)
	case *ECall:
		if (x.Fn == "calls" || x.Fn == "ts" || x.Fn == "tsat" || x.Fn == "dcalls" || x.Fn == "darg" || x.Fn == "dret" || x.Fn == "arg" || x.Fn == "argat" || x.Fn == "ncalls" || x.Fn == "ret" || x.Fn == "retat") && len(x.Args) > 0 {
			out[exprKey(x.Args[0])] = true
		}
		if x.Fn == "countat" && len(x.Args) == 3 {
			// countat(K2, K1, i): how many calls of K2 had been logged when the i-th (absolute) call of K1 was made
			out[exprKey(x.Args[0])] = true
			out[exprKey(x.Args[1])] = true
			out["countat:"+exprKey(x.Args[1])+":"+exprKey(x.Args[0])] = true
		}
		if x.Fn == "lastcall" && len(x.Args) == 3 {
			out[exprKey(x.Args[0])] = true
			out["lastcall:"+exprKey(x.Args[0])+":"+exprKey(x.Args[1])] = true
		}
		for _, a := range x.Args {
			collectCallKeys(a, out)
		}
	}
}

// exprKey renders a dotted name (possibly with $N and go: prefix) back to a key.
func exprKey(e Expr) string {
	switch x := e.(type) {
	case *EIdent:
		return x.Name
	case *ESel:
		return exprKey(x.X) + "." + x.Name
	case *EStr:
		return x.V
	}
	return "?"
}


// mentionsDirect: the expression speaks about the calls made directly by the
// function itself (dcalls/darg/dret); such a clause is proved for the function
// but means nothing to its callers and is never assumed at a call site.
func mentionsDirect(e Expr) bool {
	found := false
	var walk func(e Expr)
	walk = func(e Expr) {
		switch x := e.(type) {
		case *EUn:
			walk(x.X)
		case *EBin:
			walk(x.X)
			walk(x.Y)
		case *ESel:
			walk(x.X)
		case *EIdx:
			walk(x.X)
			walk(x.I)
		case *ESliceE:
			walk(x.X)
			if x.Lo != nil {
				walk(x.Lo)
			}
			if x.Hi != nil {
				walk(x.Hi)
			}
		case *EQuant:
			walk(x.Body)
		case *ECall:
			if x.Fn == "dcalls" || x.Fn == "darg" || x.Fn == "dret" {
				found = true
			}
			for _, a := range x.Args {
				walk(a)
			}
		}
	}
	walk(e)
	return found
}
