package main

// Models of library functions (the trusted base). Each model is listed in the
// evidence of every property whose verification used it.

import (
	"strings"
	"fmt"
	"go/types"

	"golang.org/x/tools/go/ssa"
)

type externFn func(x *Exec, st *State, cc *ssa.CallCommon, fn *ssa.Function, args []Val, resT types.Type, k func(st *State, res Val))

func (eng *Engine) externByOrigin(fn *ssa.Function) externFn {
	o := fn
	if fn.Origin() != nil {
		o = fn.Origin()
	}
	if h, ok := eng.externs[funcKey(o)]; ok {
		return h
	}
	return nil
}

func csmapKV(fn *ssa.Function) (types.Type, types.Type) {
	recv := fn.Signature.Recv()
	if recv != nil {
		if k, v, ok := isCSMap(recv.Type()); ok {
			return k, v
		}
	}
	// constructor: result type
	if fn.Signature.Results().Len() == 1 {
		if k, v, ok := isCSMap(fn.Signature.Results().At(0).Type()); ok {
			return k, v
		}
	}
	unsup("cannot determine map types of %s", fn)
	return nil, nil
}

func ret0(k func(st *State, res Val)) func(*State) { return func(st *State) { k(st, nil) } }

func (eng *Engine) initExterns() {
	E := map[string]externFn{}
	eng.externs = E
	tb := func(x *Exec, s string) { x.note(&x.trusted, s) }

	// ---- wrapper.ConcurrentSwissMap: sequential map semantics per operation ----
	const csNote = "wrapper.ConcurrentSwissMap/csmap: each operation has sequential map semantics (per-shard lock); Range visits each key once"
	E["wrapper.CreateConcurrentSwissMap"] = func(x *Exec, st *State, cc *ssa.CallCommon, fn *ssa.Function, args []Val, resT types.Type, k func(*State, Val)) {
		tb(x, csNote)
		kt, vt := csmapKV(fn)
		k(st, st.newMap(kt, vt))
	}
	E["wrapper.(*ConcurrentSwissMap).Load"] = func(x *Exec, st *State, cc *ssa.CallCommon, fn *ssa.Function, args []Val, resT types.Type, k func(*State, Val)) {
		tb(x, csNote)
		kt, vt := csmapKV(fn)
		m := args[0].(Term)
		x.implicitPanic(st, Eq(m, TInt(0)), "nil", "Load on nil ConcurrentSwissMap")
		key := st.scalar(args[1], kt)
		has := Sel(st.mapHas(m, kt, vt), key)
		raw := Sel(st.mapVal(m, kt, vt), key)
		st.assumeLoaded(raw, vt)
		k(st, &TupleVal{[]Val{Ite(has, raw, zeroVal(vt).(Term)), has}})
	}
	E["wrapper.(*ConcurrentSwissMap).Store"] = func(x *Exec, st *State, cc *ssa.CallCommon, fn *ssa.Function, args []Val, resT types.Type, k func(*State, Val)) {
		tb(x, csNote)
		kt, vt := csmapKV(fn)
		m := args[0].(Term)
		x.implicitPanic(st, Eq(m, TInt(0)), "nil", "Store on nil ConcurrentSwissMap")
		st.mapStore(m, st.scalar(args[1], kt), st.scalar(args[2], vt), kt, vt)
		k(st, nil)
	}
	E["wrapper.(*ConcurrentSwissMap).Delete"] = func(x *Exec, st *State, cc *ssa.CallCommon, fn *ssa.Function, args []Val, resT types.Type, k func(*State, Val)) {
		tb(x, csNote)
		kt, vt := csmapKV(fn)
		m := args[0].(Term)
		x.implicitPanic(st, Eq(m, TInt(0)), "nil", "Delete on nil ConcurrentSwissMap")
		st.mapDelete(m, st.scalar(args[1], kt), kt, vt)
		k(st, nil)
	}
	E["wrapper.(*ConcurrentSwissMap).Count"] = func(x *Exec, st *State, cc *ssa.CallCommon, fn *ssa.Function, args []Val, resT types.Type, k func(*State, Val)) {
		tb(x, csNote)
		kt, vt := csmapKV(fn)
		m := args[0].(Term)
		x.implicitPanic(st, Eq(m, TInt(0)), "nil", "Count on nil ConcurrentSwissMap")
		k(st, st.mapCard(m, kt, vt))
	}
	E["wrapper.(*ConcurrentSwissMap).StoreIf"] = func(x *Exec, st *State, cc *ssa.CallCommon, fn *ssa.Function, args []Val, resT types.Type, k func(*State, Val)) {
		tb(x, csNote)
		kt, vt := csmapKV(fn)
		m := args[0].(Term)
		x.implicitPanic(st, Eq(m, TInt(0)), "nil", "StoreIf on nil ConcurrentSwissMap")
		key := st.scalar(args[1], kt)
		has := Sel(st.mapHas(m, kt, vt), key)
		raw := Sel(st.mapVal(m, kt, vt), key)
		prev := Ite(has, raw, zeroVal(vt).(Term))
		x.callValue(st, args[2], []Val{prev, has}, func(st2 *State, res Val) {
			tv := res.(*TupleVal)
			set := tv.V[1].(Term)
			nv := st2.scalar(tv.V[0], vt)
			switch set.S {
			case "true":
				st2.mapStore(m, key, nv, kt, vt)
			case "false":
			default:
				st2.mapStoreIf(m, key, nv, set, kt, vt)
			}
			k(st2, nil)
		})
	}
	E["wrapper.(*ConcurrentSwissMap).Range"] = func(x *Exec, st *State, cc *ssa.CallCommon, fn *ssa.Function, args []Val, resT types.Type, k func(*State, Val)) {
		tb(x, csNote)
		kt, vt := csmapKV(fn)
		m := args[0].(Term)
		x.implicitPanic(st, Eq(m, TInt(0)), "nil", "Range on nil ConcurrentSwissMap")
		x.rangeCall(st, m, kt, vt, args[1], k)
	}
	E["wrapper.(*ConcurrentSwissMap).ToMap"] = func(x *Exec, st *State, cc *ssa.CallCommon, fn *ssa.Function, args []Val, resT types.Type, k func(*State, Val)) {
		tb(x, csNote)
		kt, vt := csmapKV(fn)
		m := args[0].(Term)
		x.implicitPanic(st, Eq(m, TInt(0)), "nil", "ToMap on nil ConcurrentSwissMap")
		n := st.allocRef()
		st.mapCopy(n, m, kt, vt)
		k(st, n)
	}

	// ---- sync ----
	const syncNote = "sync.Mutex/Once/WaitGroup, atomic.Int32: textbook semantics as ghost objects; sequentially consistent memory"
	objKey := func(st *State, p Val) (string, Term) {
		switch v := p.(type) {
		case *PRef:
			return typeName(v.Root) + "!" + fieldNameAt(v.Root, v.Path), v.Ref
		case Term:
			return "", v
		case *PLocal:
			return "", st.spill(v.Cell)
		}
		unsup("sync object address %T", p)
		return "", Term{}
	}
	E["sync.(*Mutex).Lock"] = func(x *Exec, st *State, cc *ssa.CallCommon, fn *ssa.Function, args []Val, resT types.Type, k func(*State, Val)) {
		tb(x, syncNote)
		name, ref := objKey(st, args[0])
		c := st.comp("MU!"+name, ArrSort(SI, SB))
		// a function declared nonblocking may only lock a mutex that is known to be free
		if top := st.frames[0].contract; top != nil && hasFlag(top, "nonblocking") {
			x.oblige(st, "nonblock.lock", top.Props, Not(Sel(c, ref)), "Lock cannot block: the mutex is not held")
		}
		// Lock returns only when the mutex is free: other goroutines may release it meanwhile
		st.setComp("MU!"+name, Sto(c, ref, TTrue))
		k(st, nil)
	}
	E["sync.(*Mutex).Unlock"] = func(x *Exec, st *State, cc *ssa.CallCommon, fn *ssa.Function, args []Val, resT types.Type, k func(*State, Val)) {
		tb(x, syncNote)
		name, ref := objKey(st, args[0])
		c := st.comp("MU!"+name, ArrSort(SI, SB))
		st.setComp("MU!"+name, Sto(c, ref, TFalse))
		k(st, nil)
	}
	E["sync.(*WaitGroup).Add"] = func(x *Exec, st *State, cc *ssa.CallCommon, fn *ssa.Function, args []Val, resT types.Type, k func(*State, Val)) {
		tb(x, syncNote)
		name, ref := objKey(st, args[0])
		c := st.comp("WG!"+name, ArrSort(SI, SI))
		st.setComp("WG!"+name, Sto(c, ref, Add(Sel(c, ref), args[1].(Term))))
		k(st, nil)
	}
	E["sync.(*WaitGroup).Done"] = func(x *Exec, st *State, cc *ssa.CallCommon, fn *ssa.Function, args []Val, resT types.Type, k func(*State, Val)) {
		tb(x, syncNote)
		name, ref := objKey(st, args[0])
		c := st.comp("WG!"+name, ArrSort(SI, SI))
		st.setComp("WG!"+name, Sto(c, ref, Sub(Sel(c, ref), TInt(1))))
		k(st, nil)
	}
	E["sync.(*WaitGroup).Wait"] = func(x *Exec, st *State, cc *ssa.CallCommon, fn *ssa.Function, args []Val, resT types.Type, k func(*State, Val)) {
		tb(x, syncNote)
		name, ref := objKey(st, args[0])
		c := st.comp("WG!"+name, ArrSort(SI, SI))
		// returns when the counter is zero (other goroutines call Done)
		st.setComp("WG!"+name, Sto(c, ref, TInt(0)))
		st.bumpWM()
		k(st, nil)
	}
	E["sync.(*Once).Do"] = func(x *Exec, st *State, cc *ssa.CallCommon, fn *ssa.Function, args []Val, resT types.Type, k func(*State, Val)) {
		tb(x, syncNote)
		name, ref := objKey(st, args[0])
		c := st.comp("ONCE!"+name, ArrSort(SI, SB))
		done := Sel(c, ref)
		st2 := x.fork(st)
		st.assume(done)
		k(st, nil)
		st2.assume(Not(done))
		c2 := st2.comp("ONCE!"+name, ArrSort(SI, SB))
		st2.setComp("ONCE!"+name, Sto(c2, ref, TTrue))
		x.callValue(st2, args[1], nil, func(st3 *State, _ Val) { k(st3, nil) })
	}
	atomicOp := func(op string) externFn {
		return func(x *Exec, st *State, cc *ssa.CallCommon, fn *ssa.Function, args []Val, resT types.Type, k func(*State, Val)) {
			tb(x, syncNote)
			name, ref := objKey(st, args[0])
			c := st.comp("AT!"+name, ArrSort(SI, SI))
			cur := Sel(c, ref)
			switch op {
			case "Load":
				k(st, cur)
			case "Add":
				nv := wrap(Add(cur, args[1].(Term)), fn.Signature.Results().At(0).Type())
				st.setComp("AT!"+name, Sto(c, ref, nv))
				k(st, nv)
			case "Swap":
				st.setComp("AT!"+name, Sto(c, ref, args[1].(Term)))
				k(st, cur)
			case "Store":
				st.setComp("AT!"+name, Sto(c, ref, args[1].(Term)))
				k(st, nil)
			}
		}
	}
	for _, ty := range []string{"Int32", "Uint32", "Int64", "Uint64"} {
		for _, op := range []string{"Load", "Add", "Swap", "Store"} {
			E["atomic.(*"+ty+")."+op] = atomicOp(op)
		}
	}

	// ---- errors / fmt ----
	const errNote = "errors.Is/As, errors.New, fmt.Errorf/Sprintf: errors.Is is an uninterpreted relation (false for a nil error and non-nil target); constructors return fresh non-nil values"
	E["errors.Is"] = func(x *Exec, st *State, cc *ssa.CallCommon, fn *ssa.Function, args []Val, resT types.Type, k func(*State, Val)) {
		tb(x, errNote)
		a, b := args[0].(Term), args[1].(Term)
		r := UF(SB, "err.is", a, b)
		st.assume(Imp(And(Eq(a, TInt(0)), Neq(b, TInt(0))), Not(r)))
		st.assume(Imp(And(Eq(a, b), Neq(a, TInt(0))), r))
		k(st, r)
	}
	E["errors.As"] = func(x *Exec, st *State, cc *ssa.CallCommon, fn *ssa.Function, args []Val, resT types.Type, k func(*State, Val)) {
		tb(x, errNote)
		a := args[0].(Term)
		// deterministic in the error and the target type: errors.as(err, tag) and, for a pointer-typed
		// target, errors.as.target(err, tag) is what the target receives
		tag := x.declare("tag.as.unknown", SI)
		if len(cc.Args) >= 2 {
			if mi, ok := cc.Args[1].(*ssa.MakeInterface); ok {
				if pt, ok := mi.X.Type().(*types.Pointer); ok {
					tag = x.declare(sanitize("tag.as."+typeName(pt.Elem())), SI)
				}
			}
		}
		x.decls["errors.as"] = "fun:(Int Int) Bool"
		r := UF(SB, "errors.as", a, tag)
		st.assume(Imp(Eq(a, TInt(0)), Not(r)))
		x.writeThroughIface(st, cc, func(t types.Type) Val {
			if _, isPtr := under(t).(*types.Pointer); isPtr {
				return UF(SI, "errors.as.target", a, tag)
			}
			return st.freshVal("as.target", t)
		})
		k(st, r)
	}
	newErr := func(x *Exec, st *State, cc *ssa.CallCommon, fn *ssa.Function, args []Val, resT types.Type, k func(*State, Val)) {
		tb(x, errNote)
		ref := st.allocRef()
		k(st, st.mkIface(x.declare("tag.errorString", SI), ref))
	}
	E["errors.New"] = newErr
	E["fmt.Errorf"] = newErr
	E["fmt.Sprintf"] = func(x *Exec, st *State, cc *ssa.CallCommon, fn *ssa.Function, args []Val, resT types.Type, k func(*State, Val)) {
		k(st, st.fresh("sprintf", SI))
	}

	// ---- strings / strconv / bytes ----
	const strNote = "strings are uninterpreted ids with concat/hasPrefix/contains/itoa as uninterpreted functions plus prefix axioms (hasPrefix(concat(a,b),a), prefix transitivity over concat, reflexivity)"
	E["strconv.Itoa"] = func(x *Exec, st *State, cc *ssa.CallCommon, fn *ssa.Function, args []Val, resT types.Type, k func(*State, Val)) {
		tb(x, strNote)
		k(st, UF(SI, "str.itoa", args[0].(Term)))
	}
	fmtInt := func(x *Exec, st *State, cc *ssa.CallCommon, fn *ssa.Function, args []Val, resT types.Type, k func(*State, Val)) {
		tb(x, strNote)
		if b, ok := litVal(args[1].(Term)); ok && b.IsInt64() && b.Int64() == 10 {
			k(st, UF(SI, "str.itoa", args[0].(Term))) // base 10: the same text strconv.Itoa produces for this value
			return
		}
		k(st, UF(SI, "str.formatint", args[0].(Term), args[1].(Term)))
	}
	E["strconv.FormatUint"] = fmtInt
	E["strconv.FormatInt"] = fmtInt
	E["strings.Contains"] = func(x *Exec, st *State, cc *ssa.CallCommon, fn *ssa.Function, args []Val, resT types.Type, k func(*State, Val)) {
		tb(x, strNote)
		k(st, UF(SB, "str.contains", args[0].(Term), args[1].(Term)))
	}
	E["strings.ContainsRune"] = func(x *Exec, st *State, cc *ssa.CallCommon, fn *ssa.Function, args []Val, resT types.Type, k func(*State, Val)) {
		tb(x, strNote)
		sub := UF(SI, "str.ofrune", args[1].(Term))
		if r, ok := litVal(args[1].(Term)); ok && r.IsInt64() && r.Int64() > 0 && r.Int64() < 0x110000 {
			sub = x.eng.strLit(x, string(rune(r.Int64()))) // the one-rune string: the same value strings.Contains(s, "<r>") tests
		}
		k(st, UF(SB, "str.contains", args[0].(Term), sub))
	}
	E["bytes.HasPrefix"] = func(x *Exec, st *State, cc *ssa.CallCommon, fn *ssa.Function, args []Val, resT types.Type, k func(*State, Val)) {
		tb(x, strNote)
		k(st, x.eng.strHasPrefix(x, UF(SI, "str.ofbytes", args[0].(Term)), UF(SI, "str.ofbytes", args[1].(Term))))
	}
	E["strings.HasPrefix"] = func(x *Exec, st *State, cc *ssa.CallCommon, fn *ssa.Function, args []Val, resT types.Type, k func(*State, Val)) {
		tb(x, strNote)
		k(st, x.eng.strHasPrefix(x, args[0].(Term), args[1].(Term)))
	}

	str1 := func(name string, n int) externFn {
		return func(x *Exec, st *State, cc *ssa.CallCommon, fn *ssa.Function, args []Val, resT types.Type, k func(*State, Val)) {
			tb(x, strNote)
			var as []Term
			for i := 0; i < n; i++ {
				as = append(as, args[i].(Term))
			}
			k(st, UF(SI, name, as...))
		}
	}
	E["strings.TrimSpace"] = str1("str.trimspace", 1)
	E["strings.ToUpper"] = str1("str.toupper", 1)
	E["strings.ToLower"] = str1("str.tolower", 1)
	E["strings.ReplaceAll"] = str1("str.replaceall", 3)
	E["strings.Split"] = func(x *Exec, st *State, cc *ssa.CallCommon, fn *ssa.Function, args []Val, resT types.Type, k func(*State, Val)) {
		tb(x, "strings.Split(s, sep): a fresh slice whose length (>= 1, assuming a non-empty separator) and elements are uninterpreted functions of (s, sep)")
		sT, sep := args[0].(Term), args[1].(Term)
		arr := st.allocRef()
		name, es := elemComp(types.Typ[types.String], nil)
		c := st.comp(name, ArrSort(SI, ArrSort(SI, es)))
		st.setComp(name, Sto(c, arr, UF(ArrSort(SI, SI), "str.split.arr", sT, sep)))
		ln := UF(SI, "str.split.len", sT, sep)
		st.assume(And(Ge(ln, TInt(1)), Le(ln, TInt(1<<40))))
		k(st, st.mkSlice(arr, TInt(0), ln))
	}

	for _, nm := range []string{"LastIndex", "Index"} {
		uf := "str." + strings.ToLower(nm)
		E["strings."+nm] = func(x *Exec, st *State, cc *ssa.CallCommon, fn *ssa.Function, args []Val, resT types.Type, k func(*State, Val)) {
			tb(x, "strings.Index / LastIndex: uninterpreted positions, -1 or inside the string (no string is longer than 2^62 bytes)")
			sT, sep := args[0].(Term), args[1].(Term)
			r := UF(SI, uf, sT, sep)
			st.assume(And(Ge(r, TInt(-1)), Le(Add(r, UF(SI, "str.len", sep)), UF(SI, "str.len", sT)), Le(r, TInt(1<<62))))
			k(st, r)
		}
	}

	// ---- JSON (sonic): uninterpreted encoding of the marshalled value ----
	const jsonNote = "sonic.Marshal/Unmarshal: uninterpreted enc/dec functions of the value's identity; dec(enc(x)) == x is NOT assumed (hypothesis H.json-roundtrip is stated where it is used)"
	E["sonic.Marshal"] = func(x *Exec, st *State, cc *ssa.CallCommon, fn *ssa.Function, args []Val, resT types.Type, k func(*State, Val)) {
		tb(x, jsonNote)
		k(st, &TupleVal{[]Val{UF(SI, "json.enc", args[0].(Term)), st.fresh("json.err", SI)}})
	}
	E["sonic.Unmarshal"] = func(x *Exec, st *State, cc *ssa.CallCommon, fn *ssa.Function, args []Val, resT types.Type, k func(*State, Val)) {
		tb(x, jsonNote)
		data := st.scalar(args[0], cc.Args[0].Type())
		// the target arrives as `make interface{} <- *T (p)`: a pointer-typed or integer target cell receives
		// json.dec(data) (the same bytes decode to the same value); any other target is havocked
		x.writeThroughIface(st, cc, func(t types.Type) Val {
			if sortOf(t) == SI {
				if _, isPtr := under(t).(*types.Pointer); isPtr {
					return UF(SI, "json.dec", data)
				}
			}
			return st.freshVal("json.target", t)
		})
		k(st, UF(SI, "json.decerr", data))
	}
	// ---- environment / parsing: deterministic uninterpreted functions of their input ----
	const envNote = "os.Getenv, strconv.Atoi/ParseBool, time.ParseDuration: uninterpreted functions of the input string (same input, same result)"
	E["os.Getenv"] = func(x *Exec, st *State, cc *ssa.CallCommon, fn *ssa.Function, args []Val, resT types.Type, k func(*State, Val)) {
		tb(x, envNote)
		k(st, UF(SI, "os.env", args[0].(Term)))
	}
	parse2 := func(name string) externFn {
		return func(x *Exec, st *State, cc *ssa.CallCommon, fn *ssa.Function, args []Val, resT types.Type, k func(*State, Val)) {
			tb(x, envNote)
			tup := resT.(*types.Tuple)
			var v Term
			if sortOf(tup.At(0).Type()) == SB {
				v = UF(SB, name+".val", args[0].(Term))
			} else {
				v = UF(SI, name+".val", args[0].(Term))
				st.assume(st.typeConstraint(v, tup.At(0).Type()))
			}
			k(st, &TupleVal{[]Val{v, UF(SI, name+".err", args[0].(Term))}})
		}
	}
	E["strconv.Atoi"] = parse2("atoi")
	E["strconv.ParseFloat"] = parse2("parsefloat") // bitSize is not modelled (a constant 64 in this code base)
	E["strconv.ParseUint"] = func(x *Exec, st *State, cc *ssa.CallCommon, fn *ssa.Function, args []Val, resT types.Type, k func(*State, Val)) {
		tb(x, envNote)
		v := UF(SI, "parseuint.val", args[0].(Term), args[1].(Term), args[2].(Term))
		st.assume(st.typeConstraint(v, types.Typ[types.Uint64]))
		k(st, &TupleVal{[]Val{v, UF(SI, "parseuint.err", args[0].(Term), args[1].(Term), args[2].(Term))}})
	}
	E["strconv.ParseInt"] = func(x *Exec, st *State, cc *ssa.CallCommon, fn *ssa.Function, args []Val, resT types.Type, k func(*State, Val)) {
		tb(x, envNote)
		v := UF(SI, "parseint.val", args[0].(Term), args[1].(Term), args[2].(Term))
		st.assume(st.typeConstraint(v, types.Typ[types.Int64]))
		k(st, &TupleVal{[]Val{v, UF(SI, "parseint.err", args[0].(Term), args[1].(Term), args[2].(Term))}})
	}
	E["strconv.ParseBool"] = parse2("parsebool")
	E["time.ParseDuration"] = parse2("parseduration")
	E["uuid.New"] = func(x *Exec, st *State, cc *ssa.CallCommon, fn *ssa.Function, args []Val, resT types.Type, k func(*State, Val)) {
		k(st, st.fresh("uuid", SI)) // an opaque identifier (the array value is not modelled)
	}
	E["uuid.(UUID).String"] = func(x *Exec, st *State, cc *ssa.CallCommon, fn *ssa.Function, args []Val, resT types.Type, k func(*State, Val)) {
		k(st, UF(SI, "uuid.string", st.scalar(args[0], nil)))
	}
	// ---- time ----
	const timeNote = "time.*: time values are unconstrained; Sleep returns; timers are ghost objects (AfterFunc/Stop/Reset logged)"
	E["time.Sleep"] = func(x *Exec, st *State, cc *ssa.CallCommon, fn *ssa.Function, args []Val, resT types.Type, k func(*State, Val)) {
		tb(x, timeNote)
		k(st, nil)
	}
	fresh := func(note string) externFn {
		return func(x *Exec, st *State, cc *ssa.CallCommon, fn *ssa.Function, args []Val, resT types.Type, k func(*State, Val)) {
			tb(x, note)
			name := "extern"
			if fn != nil {
				name = fn.Name()
			} else if cc != nil && cc.IsInvoke() {
				name = cc.Method.Name()
			}
			k(st, x.freshResult(st, "r."+name, resT))
		}
	}
	E["time.Now"] = func(x *Exec, st *State, cc *ssa.CallCommon, fn *ssa.Function, args []Val, resT types.Type, k func(*State, Val)) {
		tb(x, timeNote)
		v := x.freshResult(st, "r.Now", resT)
		st.assume(UF(SB, "time.nonzero", flatten(st, v)...))
		k(st, v)
	}
	E["time.(Time).Add"] = func(x *Exec, st *State, cc *ssa.CallCommon, fn *ssa.Function, args []Val, resT types.Type, k func(*State, Val)) {
		tb(x, timeNote+"; t.Add(d) is the zero time only if t is")
		v := x.freshResult(st, "r.Add", resT)
		st.assume(Eq(UF(SB, "time.nonzero", flatten(st, v)...), UF(SB, "time.nonzero", flatten(st, args[0])...)))
		k(st, v)
	}
	for _, n := range []string{"time.Since", "time.Unix", "time.(Time).After", "time.(Time).Before", "time.(Time).Sub", "time.(Time).Unix", "time.(Time).UnixNano", "time.(Duration).Seconds", "time.(Duration).String"} {
		E[n] = fresh(timeNote)
	}
	E["time.(Duration).Nanoseconds"] = func(x *Exec, st *State, cc *ssa.CallCommon, fn *ssa.Function, args []Val, resT types.Type, k func(*State, Val)) {
		k(st, args[0]) // a Duration is its nanosecond count
	}
	E["time.(Duration).Milliseconds"] = func(x *Exec, st *State, cc *ssa.CallCommon, fn *ssa.Function, args []Val, resT types.Type, k func(*State, Val)) {
		k(st, tdiv(args[0].(Term), TInt(1000000)))
	}
	E["time.Unix"] = func(x *Exec, st *State, cc *ssa.CallCommon, fn *ssa.Function, args []Val, resT types.Type, k func(*State, Val)) {
		tb(x, timeNote+"; time.Unix(s, n) is the uninterpreted value time.unix(s, n)")
		// time.Time is a struct: model every field as a function of (sec,nsec)
		sv := st.freshVal("time.unix", resT).(*StructVal)
		fillFromFn(st, sv, "time.unix", []Term{args[0].(Term), args[1].(Term)})
		k(st, sv)
	}
	E["time.(Time).After"] = func(x *Exec, st *State, cc *ssa.CallCommon, fn *ssa.Function, args []Val, resT types.Type, k func(*State, Val)) {
		tb(x, timeNote+"; Time.After is an uninterpreted relation on the field tuples")
		a := flatten(st, args[0])
		b := flatten(st, args[1])
		k(st, UF(SB, "time.after", append(a, b...)...))
	}
	E["time.AfterFunc"] = func(x *Exec, st *State, cc *ssa.CallCommon, fn *ssa.Function, args []Val, resT types.Type, k func(*State, Val)) {
		tb(x, timeNote)
		t := st.allocRef()
		k(st, t)
	}
	E["time.(*Timer).Stop"] = fresh(timeNote)
	E["time.(*Timer).Reset"] = fresh(timeNote)
	E["time.NewTicker"] = func(x *Exec, st *State, cc *ssa.CallCommon, fn *ssa.Function, args []Val, resT types.Type, k func(*State, Val)) {
		tb(x, timeNote)
		t := st.allocRef()
		ch := st.allocRef()
		st.chanInit(ch, TInt(1))
		// Ticker.C
		tt := resT.(*types.Pointer).Elem()
		st.storeObj(t, tt, []int{0}, ch)
		k(st, t)
	}
	E["time.(*Ticker).Stop"] = fresh(timeNote)
	E["time.After"] = func(x *Exec, st *State, cc *ssa.CallCommon, fn *ssa.Function, args []Val, resT types.Type, k func(*State, Val)) {
		tb(x, timeNote)
		ch := st.allocRef()
		st.chanInit(ch, TInt(1))
		k(st, ch)
	}

	// ---- context ----
	const ctxNote = "context: Done() is a ghost channel closed on cancel/deadline; Err() != nil exactly when it is closed; closing is monotone"
	newCtx := func(x *Exec, st *State, cc *ssa.CallCommon, fn *ssa.Function, args []Val, resT types.Type, k func(*State, Val)) {
		tb(x, ctxNote)
		ref := st.allocRef()
		ctx := st.mkIface(x.declare("tag.ctx", SI), ref)
		done := st.allocRef()
		st.chanInit(done, TInt(0))
		st.assume(Eq(UF(SI, "ctx.done", ctx), done))
		// deadlines: WithTimeout/WithDeadline contexts have one, Background has none, WithCancel inherits
		switch {
		case fn != nil && (fn.Name() == "WithTimeout" || fn.Name() == "WithDeadline"):
			st.assume(UF(SB, "ctx.hasdeadline", ctx))
		case fn != nil && fn.Name() == "WithCancel" && len(args) > 0:
			if p, ok := args[0].(Term); ok {
				st.assume(Eq(UF(SB, "ctx.hasdeadline", ctx), UF(SB, "ctx.hasdeadline", p)))
			}
		default:
			st.assume(Not(UF(SB, "ctx.hasdeadline", ctx)))
		}
		if tup, ok := resT.(*types.Tuple); ok && tup.Len() == 2 {
			cancel := st.allocRef()
			st.assume(Eq(cloFn(cancel), x.declare("fn.ctx.cancel", SI)))
			st.assume(Eq(UF(SI, "cancel.ctx", cancel), ctx))
			k(st, &TupleVal{[]Val{ctx, cancel}})
			return
		}
		k(st, ctx)
	}
	E["errgroup.WithContext"] = func(x *Exec, st *State, cc *ssa.CallCommon, fn *ssa.Function, args []Val, resT types.Type, k func(*State, Val)) {
		tb(x, ctxNote+"; errgroup.WithContext derives a cancellable context that inherits the parent's deadline")
		g := st.allocRef()
		ref := st.allocRef()
		ctx := st.mkIface(x.declare("tag.ctx", SI), ref)
		done := st.allocRef()
		st.chanInit(done, TInt(0))
		st.assume(Eq(UF(SI, "ctx.done", ctx), done))
		if p, ok := args[0].(Term); ok {
			st.assume(Eq(UF(SB, "ctx.hasdeadline", ctx), UF(SB, "ctx.hasdeadline", p)))
		}
		k(st, &TupleVal{[]Val{g, ctx}})
	}
	E["context.Background"] = newCtx
	E["context.WithTimeout"] = newCtx
	E["context.WithCancel"] = newCtx
	E["context.WithDeadline"] = newCtx
	E["context.Context.Done"] = func(x *Exec, st *State, cc *ssa.CallCommon, fn *ssa.Function, args []Val, resT types.Type, k func(*State, Val)) {
		tb(x, ctxNote)
		d := UF(SI, "ctx.done", args[0].(Term))
		st.assume(And(Gt(d, TInt(0)), Le(d, st.wmNow())))
		st.assume(Eq(st.chSel("CH!sent", d), st.chSel("CH!rcvd", d)))
		k(st, d)
	}
	E["context.Context.Err"] = func(x *Exec, st *State, cc *ssa.CallCommon, fn *ssa.Function, args []Val, resT types.Type, k func(*State, Val)) {
		tb(x, ctxNote)
		d := UF(SI, "ctx.done", args[0].(Term))
		st.chanEnvClose(d)
		closed := Sel(st.comp("CH!closed", ArrSort(SI, SB)), d)
		e := st.fresh("ctx.err", SI)
		st.assume(Eq(Neq(e, TInt(0)), closed))
		k(st, e)
	}
	E["context.Context.Deadline"] = func(x *Exec, st *State, cc *ssa.CallCommon, fn *ssa.Function, args []Val, resT types.Type, k func(*State, Val)) {
		tb(x, ctxNote+"; Deadline() is a function of the context, non-zero exactly when the context has a deadline")
		tup := resT.(*types.Tuple)
		tv := st.freshVal("ctx.deadline", tup.At(0).Type())
		if sv, ok := tv.(*StructVal); ok {
			fillFromFn(st, sv, "ctx.deadline", []Term{args[0].(Term)})
		}
		has := UF(SB, "ctx.hasdeadline", args[0].(Term))
		st.assume(Eq(UF(SB, "time.nonzero", flatten(st, tv)...), has))
		k(st, &TupleVal{[]Val{tv, has}})
	}

	// ---- reflect (one pattern: ValueOf(x).FieldByName("lit")) ----
	const reflNote = "reflect: ValueOf(x).FieldByName(lit) is the field go/types resolves by promotion on the dynamic type (refl.hasfield/refl.field uninterpreted, tied to known dynamic types at MakeInterface)"
	reflVal := func(st *State, t types.Type, id Term) Val {
		sv := zeroVal(t).(*StructVal)
		set := false
		var rec func(v *StructVal)
		rec = func(v *StructVal) {
			for i, f := range v.F {
				if set || f == nil {
					continue
				}
				if sub, ok := f.(*StructVal); ok {
					rec(sub)
					continue
				}
				if ft, ok := f.(Term); ok && ft.Sort == SI {
					v.F[i] = id
					set = true
				}
			}
		}
		rec(sv)
		return sv
	}
	reflID := func(st *State, v Val) Term { return flatten(st, v)[0] }
	E["reflect.ValueOf"] = func(x *Exec, st *State, cc *ssa.CallCommon, fn *ssa.Function, args []Val, resT types.Type, k func(*State, Val)) {
		tb(x, reflNote)
		k(st, reflVal(st, resT, UF(SI, "refl.valueof", args[0].(Term))))
	}
	E["reflect.(Value).FieldByName"] = func(x *Exec, st *State, cc *ssa.CallCommon, fn *ssa.Function, args []Val, resT types.Type, k func(*State, Val)) {
		tb(x, reflNote)
		k(st, reflVal(st, resT, UF(SI, "refl.field", reflID(st, args[0]), args[1].(Term))))
	}
	E["reflect.(Value).IsValid"] = func(x *Exec, st *State, cc *ssa.CallCommon, fn *ssa.Function, args []Val, resT types.Type, k func(*State, Val)) {
		tb(x, reflNote)
		k(st, UF(SB, "refl.isvalid", reflID(st, args[0])))
	}
	E["reflect.(Value).Bytes"] = func(x *Exec, st *State, cc *ssa.CallCommon, fn *ssa.Function, args []Val, resT types.Type, k func(*State, Val)) {
		tb(x, reflNote)
		k(st, UF(SI, "refl.bytes", reflID(st, args[0])))
	}
}

// flatten returns the scalar leaves of a value (struct values are flattened).
func flatten(st *State, v Val) []Term {
	switch x := v.(type) {
	case *StructVal:
		var out []Term
		s := under(types.Unalias(x.T)).(*types.Struct)
		for i, f := range x.F {
			if f == nil {
				continue
			}
			if sv, ok := f.(*StructVal); ok {
				out = append(out, flatten(st, sv)...)
				continue
			}
			t := st.scalar(f, s.Field(i).Type())
			if t.Sort == SB {
				t = Ite(t, TInt(1), TInt(0))
			}
			out = append(out, t)
		}
		return out
	default:
		t := st.scalar(v, nil)
		if t.Sort == SB {
			t = Ite(t, TInt(1), TInt(0))
		}
		return []Term{t}
	}
}

// fillFromFn constrains every leaf of sv to be an uninterpreted function of args.
func fillFromFn(st *State, sv *StructVal, name string, args []Term) {
	idx := 0
	var rec func(v *StructVal)
	rec = func(v *StructVal) {
		for _, f := range v.F {
			if f == nil {
				continue
			}
			if sub, ok := f.(*StructVal); ok {
				rec(sub)
				continue
			}
			t := f.(Term)
			fn := fmt.Sprintf("%s.%d", name, idx)
			idx++
			if t.Sort == SB {
				st.assume(Eq(t, UF(SB, fn, args...)))
			} else {
				st.assume(Eq(t, UF(SI, fn, args...)))
			}
		}
	}
	rec(sv)
}

// callValue calls a function value (closure made in this function, or static).
func (x *Exec) callValue(st *State, f Val, args []Val, k func(st *State, res Val)) {
	switch fv := f.(type) {
	case *CloVal:
		if c := x.eng.contractFor(fv.Fn); c != nil && !c.Inline && c.NoVerify {
			unsup("closure with noverify contract called")
		}
		x.inline(st, fv.Fn, args, fv.Bind, k)
	case *FuncVal:
		x.inline(st, fv.Fn, args, nil, k)
	default:
		unsup("call of symbolic function value")
	}
}

func (x *Exec) havocThroughIface(st *State, cc *ssa.CallCommon, v Val) {
	x.writeThroughIface(st, cc, func(t types.Type) Val { return st.freshVal("as.target", t) })
}

// writeThroughIface: the second argument is `make interface{} <- *T (p)`: find p syntactically and store val(T) in *p.
func (x *Exec) writeThroughIface(st *State, cc *ssa.CallCommon, val func(types.Type) Val) {
	if len(cc.Args) < 2 {
		return
	}
	if mi, ok := cc.Args[1].(*ssa.MakeInterface); ok {
		fr := st.top()
		p := fr.regs[mi.X]
		pt, isP := mi.X.Type().(*types.Pointer)
		if !isP {
			return
		}
		switch pv := p.(type) {
		case *PLocal:
			c := st.cells[pv.Cell]
			if c.spilled {
				st.storeObj(c.ref, c.T, nil, val(c.T))
			} else {
				c.V = val(c.T)
			}
		case Term:
			st.storeObj(pv, pt.Elem(), nil, val(pt.Elem()))
		}
	}
}

// ---------- builtins ----------

func (x *Exec) builtin(st *State, fr *Frame, b *ssa.Builtin, cc *ssa.CallCommon, args []Val, resT types.Type) Val {
	switch b.Name() {
	case "len":
		t := cc.Args[0].Type()
		a := st.scalar(args[0], t)
		switch under(t).(type) {
		case *types.Slice:
			l := slLen(a)
			st.assume(And(Ge(l, TInt(0)), Le(l, Term{"9223372036854775807", SI})))
			st.assume(Imp(Eq(a, TInt(0)), Eq(l, TInt(0))))
			return l
		case *types.Map:
			mt := under(t).(*types.Map)
			return st.mapCard(a, mt.Key(), mt.Elem())
		case *types.Basic:
			l := UF(SI, "str.len", a)
			st.assume(And(Ge(l, TInt(0)), Le(l, Term{"9223372036854775807", SI})))
			return l
		case *types.Chan:
			return Sub(Sel(st.comp("CH!sent", ArrSort(SI, SI)), a), Sel(st.comp("CH!rcvd", ArrSort(SI, SI)), a))
		}
	case "cap":
		t := cc.Args[0].Type()
		a := st.scalar(args[0], t)
		if _, ok := under(t).(*types.Slice); ok {
			// the capacity is some number not below the length (make records the exact one)
			c := UF(SI, "sl.cap", a)
			st.assume(And(Ge(c, slLen(a)), Le(c, Term{"9223372036854775807", SI})))
			return c
		}
		return Sel(st.comp("CH!cap", ArrSort(SI, SI)), a)
	case "append":
		return x.appendOp(st, cc, args)
	case "delete":
		mt := under(cc.Args[0].Type()).(*types.Map)
		st.mapDelete(args[0].(Term), st.scalar(args[1], mt.Key()), mt.Key(), mt.Elem())
		return nil
	case "close":
		ch := args[0].(Term)
		c := st.comp("CH!closed", ArrSort(SI, SB))
		x.implicitPanic(st, Sel(c, ch), "closeclosed", "close of closed channel")
		st.setComp("CH!closed", Sto(c, ch, TTrue))
		x.logCall(st, "builtin.close", args, []types.Type{cc.Args[0].Type()})
		return nil
	case "print", "println":
		return nil
	case "ssa:wrapnilchk":
		return args[0]
	case "min", "max":
		a, c := args[0].(Term), args[1].(Term)
		if b.Name() == "min" {
			return Ite(Le(a, c), a, c)
		}
		return Ite(Ge(a, c), a, c)
	}
	unsup("builtin %s", b.Name())
	return nil
}

func (x *Exec) appendOp(st *State, cc *ssa.CallCommon, args []Val) Val {
	stype := under(cc.Args[0].Type()).(*types.Slice)
	s := args[0].(Term)
	// append(s, elems...) where elems is a slice value
	e := args[1].(Term)
	n := slLen(s)
	m := slLen(e)
	st.assume(And(Ge(n, TInt(0)), Ge(m, TInt(0))))
	arr := st.allocRef()
	res := st.mkSlice(arr, TInt(0), Add(n, m))
	copyElems := func(name, sort string) {
		c := st.comp(name, ArrSort(SI, ArrSort(SI, sort)))
		na := st.fresh("app.arr", ArrSort(SI, sort))
		x.counter++
		i := Term{fmt.Sprintf("q.i!%d", x.counter), SI}
		st.assume(Forall([]Term{i}, And(
			Imp(And(Le(TInt(0), i), Lt(i, n)), Eq(Sel(na, i), Sel(Sel(c, slArr(s)), Add(slOff(s), i)))), // na is indexed from 0: the result slice has offset 0
			Imp(And(Le(n, i), Lt(i, Add(n, m))), Eq(Sel(na, i), Sel(Sel(c, slArr(e)), Add(slOff(e), Sub(i, n))))))))
		st.setComp(name, Sto(c, arr, na))
	}
	if isStruct(stype.Elem()) {
		for _, lf := range leaves(stype.Elem()) {
			name, sort := elemComp(stype.Elem(), lf.path)
			copyElems(name, sort)
		}
	} else {
		name, sort := elemComp(stype.Elem(), nil)
		copyElems(name, sort)
	}
	return res
}
