package main

// `govc check`: decide one property, write evidence, print VIOLATION /
// KNOWN-FINDING / UNDECIDED lines.

import (
	"regexp"
	"encoding/json"
	"flag"
	"fmt"
	"os"
	"os/exec"
	"path/filepath"
	"sort"
	"strconv"
	"strings"
	"time"
)

type ReplaySpec struct {
	Name  string   `json:"name"`
	Pkg   string   `json:"pkg"`
	Test  string   `json:"test"`
	Files []string `json:"files"`
	Gocb  bool     `json:"gocb"` // needs the scriptable gocbcore hooks
	What  string   `json:"what"`
}

// BoundedSpec: a bounded run of the real code standing in for a function outside the generator's
// reach. Always run; reported as "bounded", never counted among the proved obligations.
type BoundedSpec struct {
	ReplaySpec
	Bound string `json:"bound"`
}

type boundedResult struct {
	spec   BoundedSpec
	out    string
	failed bool
	wallS  float64
}

// FallbackSpec: a run of the real code that decides the functions in Covers when their proof
// can no longer be generated or only proof-structure obligations (loop invariants, hints) fail -
// i.e. when the code was restructured and the annotations no longer fit. Never run on a tree
// whose obligations all discharge.
type FallbackSpec struct {
	ReplaySpec
	Covers []string `json:"covers"`
	Bound  string   `json:"bound"`
}

type PropConfig struct {
	Fallbacks   []FallbackSpec `json:"fallbacks"`
	BoundedRuns []BoundedSpec `json:"bounded_runs"`
	Replays     []ReplaySpec `json:"replays"`
	Pkgs        []string     `json:"pkgs"`
	Lemmas      []string     `json:"lemmas"`
	Frames      []string     `json:"frames"`
	Bounded     []string     `json:"bounded"`
	NotDecided  []string     `json:"not_decided"`
	Assumptions []string     `json:"assumptions"`
}

type KnownFinding struct {
	Property   string `json:"property"`
	Obligation string `json:"obligation"`
	What       string `json:"what"`
	Status     string `json:"status"` // known | fixed
	Commit     string `json:"commit,omitempty"`
	Site       string `json:"site,omitempty"`
}

type oblReport struct {
	Name      string `json:"name"`
	Status    string `json:"status"`
	Backend   string `json:"backend"`
	Ms        int64  `json:"ms"`
	MaxMs     int64  `json:"max_query_ms"`
	Instances int    `json:"instances"`
	Detail    string `json:"detail,omitempty"`
}

func hasProp(list []string, p string) bool {
	for _, x := range list {
		if x == p {
			return true
		}
	}
	return false
}

// clauseProps maps obligation short names ("ensures.range") to their property tags.
func clauseProps(c *Contract) map[string][]string {
	m := map[string][]string{}
	for _, cl := range c.Clauses {
		if len(cl.Props) > 0 {
			m[clauseName(cl)] = cl.Props
		}
	}
	return m
}

func cmdCheck(args []string) {
	fs := flag.NewFlagSet("check", flag.ExitOnError)
	repo := fs.String("repo", "/repo", "repository")
	verif := fs.String("verif", "/verif", "verif directory")
	prop := fs.String("prop", "", "property id")
	tier := fs.String("tier", "quick", "quick|thorough")
	writeClaims := fs.Bool("write-claims", false, "rewrite the claims file from this run")
	noEvidence := fs.Bool("no-evidence", false, "do not write the evidence file (self-test runs)")
	fs.Parse(args)
	start := time.Now()
	seed := 0
	if s := os.Getenv("VERIF_SEED"); s != "" {
		seed, _ = strconv.Atoi(s)
	}
	var cfgs map[string]*PropConfig
	if err := readJSON(filepath.Join(*verif, "props.json"), &cfgs); err != nil {
		fatal("props.json: %v", err)
	}
	cfg := cfgs[*prop]
	if cfg == nil {
		fatal("unknown property %q", *prop)
	}
	var known []KnownFinding
	_ = readJSON(filepath.Join(*verif, "known_findings.json"), &known)

	// bounded stand-ins run on the real code while the proofs are generated
	boundedCh := make(chan boundedResult, len(cfg.BoundedRuns))
	for _, b := range cfg.BoundedRuns {
		go func(b BoundedSpec) {
			t := time.Now()
			out, failed := runReplay(*verif, *repo, b.ReplaySpec)
			boundedCh <- boundedResult{b, out, failed, time.Since(t).Seconds()}
		}(b)
	}

	eng := NewEngine(*repo)
	t0 := time.Now()
	if err := eng.Load(cfg.Pkgs); err != nil {
		// a tree that does not type-check cannot be decided
		fmt.Printf("UNDECIDED property=%s reason=load-failed: %v\n", *prop, err)
		os.Exit(3)
	}
	loadS := time.Since(t0).Seconds()

	secs := 10
	cross := false
	if *tier == "thorough" {
		secs = 60
		cross = true
	}

	var keys []string
	for k, c := range eng.contracts {
		if c.Kind == "func" && !c.Trusted && !c.NoVerify && hasProp(c.Props, *prop) {
			keys = append(keys, k)
		}
	}
	sort.Strings(keys)
	var reports []oblReport
	var undecided []string
	undecFn := map[string]string{} // undecided reason -> function it concerns ("" = not tied to one)
	lemmaBlocked := map[string]string{} // lemma file -> function whose contract stopped it
	var funcs []map[string]interface{}
	trusted := map[string]bool{}
	abstracted := map[string]bool{}
	var allObls []*Obligation
	oblFunc := map[*Obligation]string{}
	for _, k := range keys {
		fn := eng.funcs[k]
		if fn == nil {
			undecided = append(undecided, "anchor-missing:"+k)
			undecFn["anchor-missing:"+k] = k
			continue
		}
		c := eng.contracts[k]
		res := eng.VerifyFunc(fn, c)
		if res.Undecided != "" {
			undecided = append(undecided, k+": "+res.Undecided)
			undecFn[k+": "+res.Undecided] = k
		}
		cp := clauseProps(c)
		var mine []*Query
		for _, q := range res.Queries {
			short := q.Name[strings.LastIndex(q.Name, "/")+1:]
			if ps, tagged := cp[short]; tagged && !hasProp(ps, *prop) {
				continue
			}
			mine = append(mine, q)
		}
		obls := groupQueries(mine)
		for _, o := range obls {
			oblFunc[o] = k
		}
		allObls = append(allObls, obls...)
		for _, t := range res.Trusted {
			trusted[t] = true
		}
		for _, t := range res.Abstract {
			abstracted[t] = true
		}
		funcs = append(funcs, map[string]interface{}{"function": k, "paths": res.Paths, "inlined": res.Inlined, "obligations": len(obls)})
	}
	// lemmas
	for _, ln := range cfg.Lemmas {
		lres, err := eng.RunLemmaFile(filepath.Join(*verif, "lemmas", ln+".lemma"), *prop)
		if err != nil {
			u := "lemma " + ln + ": " + err.Error()
			undecided = append(undecided, u)
			// a lemma that cannot be run because the contract of a function it calls no longer fits that
			// function: attributed to the function (its fallback decides)
			if i := strings.Index(err.Error(), "call "); i >= 0 {
				rest := err.Error()[i+5:]
				if j := strings.Index(rest, ": "); j > 0 {
					undecFn[u] = rest[:j]
					lemmaBlocked[ln] = rest[:j]
				}
			}
			continue
		}
		obls := groupQueries(lres.Queries)
		for _, o := range obls {
			oblFunc[o] = "lemma:" + ln
		}
		allObls = append(allObls, obls...)
		for _, t := range lres.Trusted {
			trusted[t] = true
		}
		funcs = append(funcs, map[string]interface{}{"lemma": ln, "obligations": len(obls), "steps": lres.Steps})
	}
	// frame scans
	for _, fname := range cfg.Frames {
		qs, err := eng.RunFrameScan(fname, *prop)
		if err != nil {
			undecided = append(undecided, "frame "+fname+": "+err.Error())
			continue
		}
		obls := groupQueries(qs)
		for _, o := range obls {
			oblFunc[o] = "frame:" + fname
		}
		allObls = append(allObls, obls...)
	}
	solveStart := time.Now()
	solveAll(allObls, secs, seed, cross, 16)
	solveS := time.Since(solveStart).Seconds()

	// claims
	claimsFile := filepath.Join(*verif, "claims", *prop+".json")
	var names []string
	for _, o := range allObls {
		names = append(names, o.Name)
	}
	sort.Strings(names)
	if *writeClaims {
		os.MkdirAll(filepath.Dir(claimsFile), 0o755)
		writeJSON(claimsFile, names)
	}
	var claimed []string
	_ = readJSON(claimsFile, &claimed)
	have := map[string]bool{}
	for _, n := range names {
		have[n] = true
	}
	for _, c := range claimed {
		if !have[c] {
			u := "claimed obligation no longer generated: " + c
			undecided = append(undecided, u)
			if i := strings.LastIndex(c, "/"); i > 0 && !strings.HasPrefix(c, "lemma.") && !strings.HasPrefix(c, "frame.") {
				undecFn[u] = c[:i]
			}
			if strings.HasPrefix(c, "lemma.") {
				for ln, fn := range lemmaBlocked {
					if strings.HasPrefix(c, "lemma."+ln+".") {
						undecFn[u] = fn
					}
				}
			}
		}
	}

	discharged, total, solverMs := 0, 0, int64(0)
	violations := 0
	var knownLines []string
	var samples []interface{}
	var knownObls []string
	replayDir := filepath.Join(*verif, "out", "replay", *prop)

	// Restructured code: a function whose only problems are proof-structure obligations (loop
	// invariants, hints, impl_ clauses, obligations that are no longer generated, annotations that
	// no longer resolve) is decided by its registered fallback runs of the real code.
	problems := map[string][]string{} // function -> problem descriptions
	hard := map[string]bool{}         // function has a failing property-carrying obligation
	broken := map[string]bool{}       // function has a failing proof-structure obligation: its other failures are not trustworthy
	for _, o := range allObls {
		if o.Status == "discharged" || matchKnown(known, *prop, o.Name) != nil {
			continue
		}
		fn := oblFunc[o]
		problems[fn] = append(problems[fn], o.Name)
		if strings.HasPrefix(fn, "lemma:") || strings.HasPrefix(fn, "frame:") {
			hard[fn] = true
		} else if taintingObligation(o.Name) {
			broken[fn] = true // a loop invariant no longer fits: everything derived after the loop is meaningless
		} else if !structuralObligation(o.Name) {
			hard[fn] = true
		}
	}
	for _, u := range undecided {
		if fn := undecFn[u]; fn != "" {
			problems[fn] = append(problems[fn], u)
			broken[fn] = true
		}
	}
	// a loop without invariant that the claimed set does not know: new code under an old contract
	{
		claimedSet := map[string]bool{}
		for _, c := range claimed {
			claimedSet[c] = true
		}
		for _, o := range allObls {
			if strings.HasSuffix(o.Name, ".unannotated") && len(claimed) > 0 && !claimedSet[o.Name] {
				fn := oblFunc[o]
				problems[fn] = append(problems[fn], o.Name+" (new loop without invariant)")
				broken[fn] = true
			}
		}
	}
	// once the invariants of a function no longer hold, what the executor derives after its loops is
	// meaningless: the function's remaining failures say nothing; its fallback decides
	for fn := range broken {
		if !strings.HasPrefix(fn, "lemma:") && !strings.HasPrefix(fn, "frame:") {
			hard[fn] = false
		}
	}
	heldByFallback := map[string][]string{} // function -> fallback names that passed
	fallbackEv := []interface{}{}
	fallbackRan := map[string]*boundedResult{}
	var fns []string
	for fn := range problems {
		fns = append(fns, fn)
	}
	sort.Strings(fns)
	if *tier == "thorough" {
		// thorough: every registered fallback also runs on the tree as it is (it must agree with the proofs)
		for _, fb := range cfg.Fallbacks {
			if fallbackRan[fb.Name] != nil {
				continue
			}
			t := time.Now()
			out, failed := runReplay(*verif, *repo, fb.ReplaySpec)
			r := &boundedResult{spec: BoundedSpec{ReplaySpec: fb.ReplaySpec, Bound: fb.Bound}, out: out, failed: failed, wallS: time.Since(t).Seconds()}
			fallbackRan[fb.Name] = r
			res := "held on every case within the bound"
			if failed {
				res = "failed"
				os.MkdirAll(replayDir, 0o755)
				file := filepath.Join(replayDir, "fallback."+sanitize(fb.Name)+".json")
				writeJSON(file, map[string]interface{}{"property": *prop, "fallback": fb, "replayed": true, "failing_input": firstViolationLine(out), "observed": truncate(out, 8000)})
				fmt.Printf("VIOLATION property=%s replay=%s fallback-run=%s (real code run: test %s fails: %s)\n", *prop, file, fb.Name, fb.Test, firstViolationLine(out))
			} else if !strings.Contains(out, "ok  \t") {
				res = "could not run"
			}
			fallbackEv = append(fallbackEv, map[string]interface{}{"name": fb.Name, "label": "bounded", "covers": fb.Covers, "bound": fb.Bound, "what": fb.What, "result": res, "wall_s": r.wallS, "run": "thorough tier (unconditional)"})
		}
	}
	if os.Getenv("GOVC_NO_FALLBACK") != "" {
		fns = nil // developer aid: show the raw failures
	}
	for _, fn := range fns {
		// a function whose own contract fails is a violation whatever its fallback says; the fallback still runs,
		// to attach a concrete failing scenario of the real code to the report when it finds one
		isHard := hard[fn]
		var covering []FallbackSpec
		for _, fb := range cfg.Fallbacks {
			for _, c := range fb.Covers {
				if c == fn {
					covering = append(covering, fb)
				}
			}
		}
		if len(covering) == 0 {
			continue
		}
		allPass := true
		var names []string
		for _, fb := range covering {
			r := fallbackRan[fb.Name]
			if r == nil {
				t := time.Now()
				out, failed := runReplay(*verif, *repo, fb.ReplaySpec)
				r = &boundedResult{spec: BoundedSpec{ReplaySpec: fb.ReplaySpec, Bound: fb.Bound}, out: out, failed: failed, wallS: time.Since(t).Seconds()}
				fallbackRan[fb.Name] = r
				res := "held on every case within the bound"
				if failed {
					res = "failed"
				} else if !strings.Contains(out, "ok  \t") {
					res = "could not run"
				}
				fallbackEv = append(fallbackEv, map[string]interface{}{"name": fb.Name, "label": "bounded", "covers": fb.Covers, "bound": fb.Bound, "what": fb.What, "result": res, "wall_s": r.wallS})
				if failed {
					os.MkdirAll(replayDir, 0o755)
					file := filepath.Join(replayDir, "fallback."+sanitize(fb.Name)+".json")
					writeJSON(file, map[string]interface{}{"property": *prop, "fallback": fb, "replayed": true, "failing_input": firstViolationLine(out), "observed": truncate(out, 8000)})
					fmt.Printf("VIOLATION property=%s replay=%s fallback-run=%s (real code run: test %s fails: %s)\n", *prop, file, fb.Name, fb.Test, firstViolationLine(out))
				}
			}
			if r.failed || !strings.Contains(r.out, "ok  \t") {
				allPass = false
			}
			names = append(names, fb.Name)
		}
		if allPass && !isHard {
			heldByFallback[fn] = names
			fmt.Printf("FALLBACK-HELD property=%s function=%s proof annotations no longer fit the code (%d obligations); decided by bounded run(s) of the real code: %s\n", *prop, fn, len(problems[fn]), strings.Join(names, ","))
		}
	}
	fallbackViolations := 0
	for _, r := range fallbackRan {
		if r.failed {
			fallbackViolations++
		}
	}
	// drop the undecided entries of functions held by their fallback
	{
		var keep []string
		for _, u := range undecided {
			if fn := undecFn[u]; fn != "" && heldByFallback[fn] != nil {
				continue
			}
			keep = append(keep, u)
		}
		undecided = keep
	}
	violations += fallbackViolations

	for _, o := range allObls {
		rep := oblReport{Name: o.Name, Status: o.Status, Backend: o.Backend, Ms: o.Ms, MaxMs: o.MaxMs, Instances: len(o.Instances)}
		solverMs += o.Ms
		if o.Status != "discharged" && heldByFallback[oblFunc[o]] != nil {
			rep.Status = "not-proved; function decided by bounded fallback " + strings.Join(heldByFallback[oblFunc[o]], ",")
			reports = append(reports, rep)
			continue
		}
		if o.Status != "discharged" {
			if kf := matchKnown(known, *prop, o.Name); kf != nil {
				knownLines = append(knownLines, fmt.Sprintf("KNOWN-FINDING: property=%s %s (obligation %s)", *prop, kf.What, o.Name))
				knownObls = append(knownObls, o.Name)
				rep.Status = "known-finding"
				reports = append(reports, rep)
				continue
			}
		}
		total++
		if o.Status == "discharged" {
			discharged++
		} else {
			idx := o.FailIdx
			if idx < 0 || idx >= len(o.Instances) {
				idx = 0
			}
			rep.Detail = o.Instances[idx].Detail
			violations++
			path := writeReplay(eng, replayDir, *prop, o, idx, oblFunc[o], *repo)
			fmt.Println(path)
		}
		reports = append(reports, rep)
		if len(samples) < 12 {
			samples = append(samples, map[string]interface{}{"obligation": o.Name, "result": o.Status, "backend": o.Backend, "ms": o.Ms, "instances": len(o.Instances)})
		}
	}
	// When something failed or could not be decided, the registered replays of this
	// property are run against the real code: a failing replay is a violation with a
	// concrete failing scenario.
	replaysRun, replaysFailed := 0, 0
	if violations > 0 || len(undecided) > 0 || *tier == "thorough" {
		for _, rp := range cfg.Replays {
			replaysRun++
			out, failed := runReplay(*verif, *repo, rp)
			if failed {
				replaysFailed++
				violations++
				os.MkdirAll(replayDir, 0o755)
				file := filepath.Join(replayDir, "replay."+sanitize(rp.Name)+".json")
				writeJSON(file, map[string]interface{}{"property": *prop, "replay": rp, "replayed": true, "failing_input": firstViolationLine(out), "scenario": rp.What, "observed": truncate(out, 8000)})
				fmt.Printf("VIOLATION property=%s replay=%s scenario=%s (real code run: test %s fails)\n", *prop, file, rp.Name, rp.Test)
			}
		}
	}
	boundedEv := []interface{}{}
	for range cfg.BoundedRuns {
		r := <-boundedCh
		res := "held on every case within the bound"
		if r.failed {
			res = "failed"
			violations++
			os.MkdirAll(replayDir, 0o755)
			file := filepath.Join(replayDir, "bounded."+sanitize(r.spec.Name)+".json")
			writeJSON(file, map[string]interface{}{"property": *prop, "bounded_run": r.spec, "replayed": true, "failing_input": firstViolationLine(r.out), "observed": truncate(r.out, 8000)})
			fmt.Printf("VIOLATION property=%s replay=%s bounded-run=%s (real code run: test %s fails: %s)\n", *prop, file, r.spec.Name, r.spec.Test, firstViolationLine(r.out))
		} else if !strings.Contains(r.out, "ok  \t") {
			res = "could not run"
			undecided = append(undecided, "bounded run "+r.spec.Name+" could not run: "+truncate(strings.TrimSpace(r.out), 300))
		}
		boundedEv = append(boundedEv, map[string]interface{}{"name": r.spec.Name, "label": "bounded", "bound": r.spec.Bound, "what": r.spec.What, "test": r.spec.Pkg + "." + r.spec.Test, "result": res, "wall_s": r.wallS})
	}
	for _, l := range knownLines {
		fmt.Println(l)
	}
	for _, u := range undecided {
		fmt.Printf("UNDECIDED property=%s reason=%s\n", *prop, u)
	}

	tb := []string{
		"govc (this generator): SSA semantics, contract parser, VC encoding; golang.org/x/tools go/ssa + go/types",
		"SMT solvers z3 5.1.0 (z3-new), cvc5 1.0.3, z3 4.8.12",
		"sequentially consistent memory; data races on plain fields are not detected",
		"the induction principle for lemma invariants (init + every step => all reachable states)",
	}
	tb = append(tb, setList(trusted)...)
	tb = append(tb, setList(abstracted)...)
	ev := map[string]interface{}{
		"property_id": *prop,
		"tier":        *tier,
		"seed":        seed,
		"level":       "proof",
		"coverage": map[string]interface{}{
			"obligations":               total,
			"discharged":                discharged,
			"checker_cmd":               fmt.Sprintf("bin/check %s %s", *prop, *tier),
			"trusted_base":              tb,
			"samples":                   samples,
			"functions_under_contract":  funcs,
			"obligation_results":        reports,
			"not_decided":               cfg.NotDecided,
			"fallback_runs":             fallbackEv,
			"bounded_stand_ins":         boundedEv,
			"known_finding_obligations": knownObls,
			"undecided":                 undecided,
			"solver_time_ms":            solverMs,
			"replays_run":               replaysRun,
			"replays_failed":            replaysFailed,
			"load_s":                    loadS,
			"solve_wall_s":              solveS,
			"integers":                  "mathematical Int with exact wrap-around encoding for + - and constant multiplications, range assumptions on every input/load; symbolic*symbolic products carry a nowrap obligation",
		},
		"assumptions": append(append([]string{}, cfg.Assumptions...), setList(trusted)...),
		"wall_s":      time.Since(start).Seconds(),
		"violations":  violations,
	}
	if !*noEvidence {
		os.MkdirAll(filepath.Join(*verif, "evidence"), 0o755)
		writeJSON(filepath.Join(*verif, "evidence", *prop+".json"), ev)
	}
	fmt.Printf("property=%s tier=%s functions=%d obligations=%d discharged=%d known=%d undecided=%d wall=%.1fs (load %.1fs, solve %.1fs)\n",
		*prop, *tier, len(keys), total, discharged, len(knownObls), len(undecided), time.Since(start).Seconds(), loadS, solveS)
	if violations > 0 {
		os.Exit(1)
	}
	if len(undecided) > 0 || total == 0 {
		if total == 0 {
			fmt.Printf("UNDECIDED property=%s reason=no-obligations-generated\n", *prop)
		}
		os.Exit(3)
	}
}

var structuralRe = regexp.MustCompile(`^(loop[$0-9]+\.(entry|preserved|frame)|loop[$0-9]+\.[a-z]+\..*|hint\.|(ensures|check)\.impl_|smoke\.|vacuity\.)`)

var taintRe = regexp.MustCompile(`^loop[$0-9]+\.`)

// taintingObligation: a failed loop obligation (invariant on entry / preserved / loop frame).
func taintingObligation(name string) bool {
	return taintRe.MatchString(name[strings.LastIndex(name, "/")+1:])
}

// structuralObligation: an obligation that carries the proof, not the property.
func structuralObligation(name string) bool {
	short := name[strings.LastIndex(name, "/")+1:]
	return structuralRe.MatchString(short)
}

func firstViolationLine(out string) string {
	for _, l := range strings.Split(out, "\n") {
		if i := strings.Index(l, "VIOLATION"); i >= 0 {
			return truncate(strings.TrimSpace(l[i:]), 400)
		}
	}
	return "test failed"
}

func matchKnown(known []KnownFinding, prop, obl string) *KnownFinding {
	for i := range known {
		k := &known[i]
		if k.Status == "known" && k.Property == prop && k.Obligation == obl {
			return k
		}
	}
	return nil
}

func writeReplay(eng *Engine, dir, prop string, o *Obligation, idx int, fnKey, repo string) string {
	os.MkdirAll(dir, 0o755)
	file := filepath.Join(dir, sanitize(o.Name)+".json")
	r := o.Results[idx]
	rep := map[string]interface{}{
		"property":       prop,
		"obligation":     o.Name,
		"function":       fnKey,
		"instance":       o.Instances[idx].Detail,
		"verdict":        r.Verdict.String(),
		"solver":         r.Solver,
		"solver_output":  truncate(r.Output, 20000),
		"query":          o.Instances[idx].Text(true),
		"replayed":       false,
		"failing_input":  nil,
		"replay_comment": "",
	}
	suffix := " no-failing-input-found"
	if r.Verdict == VSat {
		if in, out, ok := tryReplay(eng, repo, fnKey, o, idx, r.Model); ok {
			rep["replayed"] = true
			rep["failing_input"] = in
			rep["observed"] = out
			if m, ok := in.(map[string]interface{}); ok {
				suffix = fmt.Sprintf(" failing-input: %v -> %v (replayed on the real code)", m["input"], m["result"])
			} else {
				suffix = ""
			}
		} else if out != "" {
			rep["replay_comment"] = out
		}
	} else {
		rep["replay_comment"] = "no solver returned a model (" + r.Verdict.String() + "); the obligation was discharged on the unchanged tree"
	}
	writeJSON(file, rep)
	return fmt.Sprintf("VIOLATION property=%s replay=%s obligation=%s%s", prop, file, o.Name, suffix)
}

func truncate(s string, n int) string {
	if len(s) > n {
		return s[:n] + "...[truncated]"
	}
	return s
}

func readJSON(path string, v interface{}) error {
	data, err := os.ReadFile(path)
	if err != nil {
		return err
	}
	return json.Unmarshal(data, v)
}

func writeJSON(path string, v interface{}) {
	data, err := json.MarshalIndent(v, "", " ")
	if err != nil {
		fatal("json: %v", err)
	}
	if err := os.WriteFile(path, append(data, '\n'), 0o644); err != nil {
		fatal("write %s: %v", path, err)
	}
}

func fatal(f string, a ...interface{}) {
	fmt.Fprintf(os.Stderr, f+"\n", a...)
	os.Exit(2)
}

// runReplay runs one registered in-package replay test against the real code.
// runReplay runs a registered test of the real code; a failing run is repeated once, so that a timing-dependent
// scenario disturbed by machine load is not reported (a deterministic failure fails both times).
func runReplay(verif, repo string, rp ReplaySpec) (string, bool) {
	out, failed := runReplayOnce(verif, repo, rp)
	if failed {
		out2, failed2 := runReplayOnce(verif, repo, rp)
		if !failed2 {
			return out2 + "\n(first run failed, the repetition passed: treated as disturbed by load)\n", false
		}
	}
	return out, failed
}

func runReplayOnce(verif, repo string, rp ReplaySpec) (string, bool) {
	script := "run_inpkg.sh"
	if rp.Gocb {
		script = "run_gocb.sh"
	}
	args := []string{filepath.Join(verif, "replay", script), repo, rp.Pkg, rp.Test}
	for _, f := range rp.Files {
		args = append(args, filepath.Join(verif, f))
	}
	cmd := exec.Command(args[0], args[1:]...)
	out, err := cmd.CombinedOutput()
	// a test that ran and failed; a build failure of the injected test is not a failing run
	o := string(out)
	crashed := strings.Contains(o, "FAIL\t") && (strings.Contains(o, "panic:") || strings.Contains(o, "fatal error:")) && !strings.Contains(o, "[build failed]") && !strings.Contains(o, "[setup failed]")
	return o, err != nil && (strings.Contains(o, "--- FAIL") || crashed)
}
