package main

// Replay of solver counterexamples against the real code. For functions whose inputs are scalars
// and pointers to structs of scalars (and whose results are scalars), the failing query is asked
// for the values of the inputs and of the predicted results, an in-package test that calls the real
// function on those inputs is injected with `go test -overlay`, and the observed results are
// compared with the prediction: when they agree, the real code violates the clause on that input.

import (
	"fmt"
	"go/types"
	"os"
	"os/exec"
	"path/filepath"
	"sort"
	"strings"

	"golang.org/x/tools/go/ssa"
)

type replayField struct {
	Name string
	T    types.Type
	Term Term
}

type replayVar struct {
	Name   string
	T      types.Type
	Term   Term          // scalar value or pointer
	Struct types.Type    // pointee when the variable is a pointer to a struct of scalars
	Fields []replayField // its fields in the entry state
}

type ReplayInfo struct {
	Fn      *ssa.Function
	Params  []replayVar
	Results []Term
	ResT    []types.Type
}

func scalarBasic(t types.Type) bool {
	b, ok := under(types.Unalias(t)).(*types.Basic)
	return ok && b.Info()&(types.IsInteger|types.IsBoolean) != 0
}

// replayInfo describes the inputs of fn when they can be rebuilt from a model; nil otherwise.
func (eng *Engine) replayInfo(st *State, fn *ssa.Function, args []Val) *ReplayInfo {
	if len(fn.FreeVars) > 0 || fn.Signature.TypeParams() != nil || fn.Signature.RecvTypeParams() != nil || fn.Pkg == nil {
		return nil
	}
	ri := &ReplayInfo{Fn: fn}
	for i, p := range fn.Params {
		t, ok := args[i].(Term)
		if !ok {
			return nil
		}
		v := replayVar{Name: p.Name(), T: p.Type(), Term: t}
		switch {
		case scalarBasic(p.Type()):
		default:
			pt, ok := under(p.Type()).(*types.Pointer)
			if !ok {
				return nil
			}
			stt, ok := under(pt.Elem()).(*types.Struct)
			if !ok {
				return nil
			}
			if _, named := types.Unalias(pt.Elem()).(*types.Named); !named {
				return nil
			}
			v.Struct = pt.Elem()
			foreign := false
			if n, ok := types.Unalias(pt.Elem()).(*types.Named); ok && n.Obj().Pkg() != fn.Pkg.Pkg {
				foreign = true
			}
			for f := 0; f < stt.NumFields(); f++ {
				if !scalarBasic(stt.Field(f).Type()) || (foreign && !stt.Field(f).Exported()) {
					continue // left at its zero value in the replay (the comparison with the prediction decides)
				}
				v.Fields = append(v.Fields, replayField{Name: stt.Field(f).Name(), T: stt.Field(f).Type(), Term: st.readField(t, pt.Elem(), []int{f})})
			}
		}
		ri.Params = append(ri.Params, v)
	}
	res := fn.Signature.Results()
	if res.Len() == 0 || res.Len() > 2 {
		return nil
	}
	for i := 0; i < res.Len(); i++ {
		if !scalarBasic(res.At(i).Type()) {
			return nil
		}
		ri.ResT = append(ri.ResT, res.At(i).Type())
	}
	return ri
}

func (ri *ReplayInfo) withResults(st *State, tvs []TV) *ReplayInfo {
	if len(tvs) != len(ri.ResT) {
		return nil
	}
	c := *ri
	c.Results = nil
	for i, tv := range tvs {
		t, ok := tv.V.(Term)
		if !ok {
			return nil
		}
		if t.Sort == SB {
			t = Ite(t, TInt(1), TInt(0))
		}
		_ = i
		c.Results = append(c.Results, t)
	}
	return &c
}

func tryReplay(eng *Engine, repo, fnKey string, o *Obligation, idx int, model string) (interface{}, string, bool) {
	q := o.Instances[idx]
	ri := q.Replay
	if ri == nil {
		return nil, "no counterexample replay for this function (inputs are not scalars / structs of scalars)", false
	}
	// 1. concrete values of inputs and predicted results
	var terms []Term
	for _, p := range ri.Params {
		t := p.Term
		if t.Sort == SB {
			t = Ite(t, TInt(1), TInt(0))
		}
		terms = append(terms, t)
		for _, f := range p.Fields {
			ft := f.Term
			if ft.Sort == SB {
				ft = Ite(ft, TInt(1), TInt(0))
			}
			terms = append(terms, ft)
		}
	}
	terms = append(terms, ri.Results...)
	vals, err := getValues(q, terms)
	if err != nil {
		return nil, "could not read the counterexample: " + err.Error(), false
	}
	// 2. the test
	qual := func(p *types.Package) string {
		if p == ri.Fn.Pkg.Pkg {
			return ""
		}
		return p.Name()
	}
	imports := map[string]string{}
	var collect func(t types.Type)
	collect = func(t types.Type) {
		switch tt := types.Unalias(t).(type) {
		case *types.Named:
			if tt.Obj().Pkg() != nil && tt.Obj().Pkg() != ri.Fn.Pkg.Pkg {
				imports[tt.Obj().Pkg().Path()] = tt.Obj().Pkg().Name()
			}
		case *types.Pointer:
			collect(tt.Elem())
		}
	}
	lit := func(t types.Type, v string) string {
		collect(t)
		b := under(types.Unalias(t)).(*types.Basic)
		if b.Info()&types.IsBoolean != 0 {
			s := "false"
			if v != "0" {
				s = "true"
			}
			if _, named := types.Unalias(t).(*types.Named); named {
				return types.TypeString(t, qual) + "(" + s + ")"
			}
			return s
		}
		return types.TypeString(t, qual) + "(" + v + ")"
	}
	k := 0
	next := func() string { v := vals[k]; k++; return v }
	var decl, callArgs, inputDesc []string
	for i, p := range ri.Params {
		name := fmt.Sprintf("a%d", i)
		pv := next()
		if p.Struct == nil {
			decl = append(decl, fmt.Sprintf("\t%s := %s", name, lit(p.T, pv)))
			inputDesc = append(inputDesc, fmt.Sprintf("%s=%s", p.Name, pv))
		} else {
			collect(p.Struct)
			var fs, fd []string
			for _, f := range p.Fields {
				fv := next()
				fs = append(fs, fmt.Sprintf("%s: %s", f.Name, lit(f.T, fv)))
				fd = append(fd, fmt.Sprintf("%s:%s", f.Name, fv))
			}
			if pv == "0" {
				decl = append(decl, fmt.Sprintf("\tvar %s %s", name, types.TypeString(p.T, qual)))
				inputDesc = append(inputDesc, p.Name+"=nil")
			} else {
				decl = append(decl, fmt.Sprintf("\t%s := &%s{%s}", name, types.TypeString(p.Struct, qual), strings.Join(fs, ", ")))
				inputDesc = append(inputDesc, fmt.Sprintf("%s=&{%s}", p.Name, strings.Join(fd, " ")))
			}
		}
		callArgs = append(callArgs, name)
	}
	var predicted []string
	for range ri.Results {
		predicted = append(predicted, next())
	}
	call := ""
	if ri.Fn.Signature.Recv() != nil {
		call = callArgs[0] + "." + ri.Fn.Name() + "(" + strings.Join(callArgs[1:], ", ") + ")"
	} else {
		call = ri.Fn.Name() + "(" + strings.Join(callArgs, ", ") + ")"
	}
	var outs, prints []string
	for i, t := range ri.ResT {
		outs = append(outs, fmt.Sprintf("r%d", i))
		b := under(types.Unalias(t)).(*types.Basic)
		if b.Info()&types.IsBoolean != 0 {
			prints = append(prints, fmt.Sprintf("map[bool]int{false: 0, true: 1}[bool(r%d)]", i))
		} else {
			prints = append(prints, fmt.Sprintf("r%d", i))
		}
	}
	var imps []string
	for path, name := range imports {
		imps = append(imps, fmt.Sprintf("\t%s %q", name, path))
	}
	sort.Strings(imps)
	src := "package " + ri.Fn.Pkg.Pkg.Name() + "\n\n// generated by govc: replay of a solver counterexample on the real function\n\nimport (\n\t\"testing\"\n" + strings.Join(imps, "\n") + "\n)\n\n" +
		"func TestVerifModelReplay(t *testing.T) {\n\tdefer func() {\n\t\tif r := recover(); r != nil {\n\t\t\tt.Errorf(\"\\nVERIF-PANIC %v\", r)\n\t\t}\n\t}()\n" + strings.Join(decl, "\n") + "\n\t" + strings.Join(outs, ", ") + " := " + call + "\n\tt.Errorf(\"\\nVERIF-RESULT" + strings.Repeat(" %v", len(prints)) + "\"" + func() string {
		s := ""
		for _, p := range prints {
			s += ", " + p
		}
		return s
	}() + ")\n}\n"
	dir, err := os.MkdirTemp("", "govc-replay")
	if err != nil {
		return nil, err.Error(), false
	}
	defer os.RemoveAll(dir)
	file := filepath.Join(dir, "zz_verif_model_replay_test.go")
	if err := os.WriteFile(file, []byte(src), 0o644); err != nil {
		return nil, err.Error(), false
	}
	rel := strings.TrimPrefix(strings.TrimPrefix(ri.Fn.Pkg.Pkg.Path(), repoModule), "/")
	if rel == "" {
		rel = "."
	}
	exe, _ := os.Executable()
	script := filepath.Join(filepath.Dir(filepath.Dir(exe)), "replay", "run_inpkg.sh")
	out, _ := exec.Command(script, repo, rel, "TestVerifModelReplay", file).CombinedOutput()
	input := strings.Join(inputDesc, ", ")
	var observed []string
	for _, l := range strings.Split(string(out), "\n") {
		l = strings.TrimSpace(l)
		if strings.HasPrefix(l, "VERIF-RESULT") {
			observed = strings.Fields(l)[1:]
		}
		if strings.HasPrefix(l, "VERIF-PANIC") {
			return input, "real code panicked: " + l, false
		}
	}
	if observed == nil {
		return input, "the generated replay test did not run: " + truncate(string(out), 600), false
	}
	obs := fmt.Sprintf("%s returned (%s); the counterexample predicts (%s)", call, strings.Join(observed, ", "), strings.Join(predicted, ", "))
	if strings.Join(observed, ",") == strings.Join(predicted, ",") {
		return map[string]interface{}{"call": funcKey(ri.Fn), "input": input, "result": strings.Join(observed, ", ")}, obs + ": the real code violates the clause on this input", true
	}
	return input, obs + ": not reproduced on the real code", false
}

// getValues asks the solver for the values of terms in a model of the failing query.
func getValues(q *Query, terms []Term) ([]string, error) {
	var b strings.Builder
	// mention every term so that its symbols are declared even when the query does not use them
	q2 := *q
	q2.Assume = append([]Term(nil), q.Assume...)
	for _, t := range terms {
		q2.Assume = append(q2.Assume, Term{"(= " + t.S + " " + t.S + ")", SB})
	}
	text := q2.Text(false)
	text = strings.Replace(text, "(check-sat)", "", 1)
	b.WriteString(text)
	b.WriteString("\n(check-sat)\n(get-value (")
	for _, t := range terms {
		b.WriteString(t.S)
		b.WriteString(" ")
	}
	b.WriteString("))\n")
	f, err := os.CreateTemp("", "gv*.smt2")
	if err != nil {
		return nil, err
	}
	defer os.Remove(f.Name())
	f.WriteString(b.String())
	f.Close()
	out, _ := exec.Command("z3-new", "-T:20", f.Name()).CombinedOutput()
	s := string(out)
	if !strings.HasPrefix(strings.TrimSpace(s), "sat") {
		return nil, fmt.Errorf("solver answered %q", truncate(strings.TrimSpace(s), 80))
	}
	if os.Getenv("GOVC_DEBUG_REPLAY") != "" {
		fmt.Fprintln(os.Stderr, "get-value answer:", truncate(s, 1500))
	}
	toks := sexpTokens(s[strings.Index(s, "sat")+3:])
	// ( ( term value ) ( term value ) ... )
	var vals []string
	i := 1
	for i < len(toks) && toks[i] == "(" {
		j := skipSexp(toks, i+1) // term
		k := skipSexp(toks, j)   // value
		v := strings.Join(toks[j:k], " ")
		v = strings.ReplaceAll(v, "( - ", "-")
		v = strings.ReplaceAll(v, "( -", "-")
		v = strings.ReplaceAll(v, " )", "")
		v = strings.TrimSpace(v)
		vals = append(vals, v)
		i = k + 1
	}
	if len(vals) != len(terms) {
		return nil, fmt.Errorf("%d values for %d terms", len(vals), len(terms))
	}
	return vals, nil
}

// parseModel extracts (define-fun name () Sort value) entries of a z3/cvc5 model.
func parseModel(model string) map[string]string {
	out := map[string]string{}
	toks := sexpTokens(model)
	for i := 0; i+5 < len(toks); i++ {
		if toks[i] == "define-fun" && toks[i+2] == "(" && toks[i+3] == ")" {
			name := toks[i+1]
			j := i + 4
			j = skipSexp(toks, j)
			k := skipSexp(toks, j)
			out[name] = strings.Join(toks[j:k], " ")
		}
	}
	return out
}

func skipSexp(toks []string, i int) int {
	if i >= len(toks) {
		return i
	}
	if toks[i] != "(" {
		return i + 1
	}
	depth := 0
	for ; i < len(toks); i++ {
		if toks[i] == "(" {
			depth++
		} else if toks[i] == ")" {
			depth--
			if depth == 0 {
				return i + 1
			}
		}
	}
	return i
}

func sexpTokens(s string) []string {
	var out []string
	cur := ""
	flush := func() {
		if cur != "" {
			out = append(out, cur)
			cur = ""
		}
	}
	for _, c := range s {
		switch c {
		case '(', ')':
			flush()
			out = append(out, string(c))
		case ' ', '\n', '\t', '\r':
			flush()
		default:
			cur += string(c)
		}
	}
	flush()
	return out
}
