package main

// Replay of solver counterexamples against the real code (in-package tests
// injected with `go test -overlay`). Adaptors are registered per function.

type replayAdaptor func(eng *Engine, repo string, o *Obligation, idx int, model map[string]string) (input interface{}, observed string, violated bool)

var replayAdaptors = map[string]replayAdaptor{}

func tryReplay(eng *Engine, repo, fnKey string, o *Obligation, idx int, model string) (interface{}, string, bool) {
	ad, ok := replayAdaptors[fnKey]
	if !ok {
		return nil, "no replay adaptor for " + fnKey, false
	}
	m := parseModel(model)
	return ad(eng, repo, o, idx, m)
}

// parseModel extracts (define-fun name () Sort value) entries of a z3/cvc5 model.
func parseModel(model string) map[string]string {
	out := map[string]string{}
	toks := sexpTokens(model)
	// scan for: ( define-fun NAME ( ) SORT VALUE )
	for i := 0; i+5 < len(toks); i++ {
		if toks[i] == "define-fun" && toks[i+2] == "(" && toks[i+3] == ")" {
			name := toks[i+1]
			j := i + 4
			// sort: one token or a parenthesised group
			j = skipSexp(toks, j)
			k := skipSexp(toks, j)
			val := ""
			for _, t := range toks[j:k] {
				if val != "" && t != ")" && val[len(val)-1] != '(' {
					val += " "
				}
				val += t
			}
			out[name] = val
		}
	}
	return out
}

func skipSexp(toks []string, i int) int {
	if i >= len(toks) {
		return i
	}
	if toks[i] != "(" {
		return i + 1
	}
	depth := 0
	for ; i < len(toks); i++ {
		if toks[i] == "(" {
			depth++
		} else if toks[i] == ")" {
			depth--
			if depth == 0 {
				return i + 1
			}
		}
	}
	return i
}

func sexpTokens(s string) []string {
	var out []string
	cur := ""
	flush := func() {
		if cur != "" {
			out = append(out, cur)
			cur = ""
		}
	}
	for _, c := range s {
		switch c {
		case '(', ')':
			flush()
			out = append(out, string(c))
		case ' ', '\n', '\t', '\r':
			flush()
		default:
			cur += string(c)
		}
	}
	flush()
	return out
}
