package main

// Immutable initialised globals. A package-level variable `var G = &T{c1, c2, ...}` whose
// initialiser stores only constants, that is assigned nowhere else, whose address never
// escapes, and whose struct type T is written only through locally allocated objects, has
// the same value in every reachable state. The facts (G != nil, G.f == c) are derived from
// the SSA of the package initialiser on every run and attached to every heap version that
// occurs in a query. The conditions are re-checked on every run by the scan below; when one
// fails no fact is produced (proofs that need them then fail) and the frame scan
// "const-globals" reports the offender.

import (
	"fmt"
	"go/constant"
	"go/types"
	"math/big"
	"sort"
	"strings"

	"golang.org/x/tools/go/ssa"
)

type constGlobal struct {
	Name     string // pkg.Var
	AddrSym  string // SMT symbol of the variable's address
	ValSym   string // SMT symbol of the pointer stored in it
	CellComp string // heap component holding the variable
	Fields   []constField
}

type constField struct {
	Comp string
	Val  *big.Int
}

var (
	constGlobals     []constGlobal // facts usable in queries (set by scanConstGlobals)
	constGlobalViol  []string
	constGlobalScans int
)

func (eng *Engine) scanConstGlobals() {
	constGlobals, constGlobalViol, constGlobalScans = nil, nil, 0
	type cand struct {
		g      *ssa.Global
		alloc  *ssa.Alloc
		st     *types.Struct
		named  types.Type
		fields map[int]*big.Int
		bad    string
	}
	var cands []*cand
	candTypes := map[string]bool{}
	var pkgPaths []string
	for p := range eng.ssaPkgs {
		pkgPaths = append(pkgPaths, p)
	}
	sort.Strings(pkgPaths)
	for _, p := range pkgPaths {
		sp := eng.ssaPkgs[p]
		initFn := sp.Func("init")
		if initFn == nil {
			continue
		}
		for _, b := range initFn.Blocks {
			for _, in := range b.Instrs {
				s, ok := in.(*ssa.Store)
				if !ok {
					continue
				}
				g, ok := s.Addr.(*ssa.Global)
				if !ok || g.Pkg != sp {
					continue
				}
				a, ok := s.Val.(*ssa.Alloc)
				if !ok {
					continue
				}
				pt, ok := g.Type().(*types.Pointer).Elem().(*types.Pointer)
				if !ok {
					continue
				}
				stt, ok := under(pt.Elem()).(*types.Struct)
				if !ok {
					continue
				}
				c := &cand{g: g, alloc: a, st: stt, named: pt.Elem(), fields: map[int]*big.Int{}}
				// every field must be an integer or bool kept as a constant
				for i := 0; i < stt.NumFields(); i++ {
					if sortOf(stt.Field(i).Type()) != SI || !isInteger(stt.Field(i).Type()) {
						c.bad = "field " + stt.Field(i).Name() + " is not an integer"
					}
					c.fields[i] = big.NewInt(0)
				}
				// the literal: only constant field stores and the store into the global
				if a.Referrers() != nil {
					for _, r := range *a.Referrers() {
						switch rv := r.(type) {
						case *ssa.Store:
							if rv != s {
								c.bad = "composite literal stored elsewhere"
							}
						case *ssa.FieldAddr:
							if rv.Referrers() == nil {
								continue
							}
							for _, rr := range *rv.Referrers() {
								fs, ok := rr.(*ssa.Store)
								if !ok || fs.Addr != rv {
									c.bad = "field address of the literal escapes"
									continue
								}
								k, ok := fs.Val.(*ssa.Const)
								if !ok || k.Value == nil || k.Value.Kind() != constant.Int {
									c.bad = "field initialised with a non-constant"
									continue
								}
								n, _ := new(big.Int).SetString(k.Value.ExactString(), 10)
								c.fields[rv.Field] = n
							}
						case *ssa.DebugRef:
						default:
							c.bad = fmt.Sprintf("composite literal used by %T", r)
						}
					}
				}
				cands = append(cands, c)
				candTypes[typeName(c.named)] = true
			}
		}
	}
	if len(cands) == 0 {
		return
	}
	// whole-program conditions over every loaded /repo function
	typeBad := map[string]string{}
	globalStores := map[*ssa.Global]int{}
	globalBad := map[*ssa.Global]string{}
	isCandAlloc := map[ssa.Value]bool{}
	for _, c := range cands {
		isCandAlloc[c.alloc] = true
	}
	for _, f := range eng.allRepoFuncs() {
		for _, b := range f.Blocks {
			for _, in := range b.Instrs {
				constGlobalScans++
				// uses of a candidate global's address
				for _, op := range in.Operands(nil) {
					g, ok := (*op).(*ssa.Global)
					if !ok {
						continue
					}
					switch iv := in.(type) {
					case *ssa.UnOp:
						// load
					case *ssa.Store:
						if iv.Addr == g {
							globalStores[g]++
							if f.Name() != "init" || f.Pkg != g.Pkg {
								globalBad[g] = funcKey(f) + " assigns " + g.Name()
							}
						} else {
							globalBad[g] = funcKey(f) + " stores the address of " + g.Name()
						}
					case *ssa.DebugRef:
					default:
						globalBad[g] = fmt.Sprintf("%s uses the address of %s in %T", funcKey(f), g.Name(), in)
					}
				}
				// writes through *T
				switch iv := in.(type) {
				case *ssa.Store:
					if pt, ok := iv.Addr.Type().(*types.Pointer); ok && candTypes[typeName(pt.Elem())] {
						if _, local := iv.Addr.(*ssa.Alloc); !local {
							typeBad[typeName(pt.Elem())] = funcKey(f) + " overwrites a " + typeName(pt.Elem()) + " through a pointer"
						}
					}
				case *ssa.FieldAddr:
					pt, ok := iv.X.Type().(*types.Pointer)
					if !ok || !candTypes[typeName(pt.Elem())] {
						continue
					}
					if _, local := iv.X.(*ssa.Alloc); local {
						continue // a locally allocated object (incl. the literals in init)
					}
					if iv.Referrers() == nil {
						continue
					}
					for _, r := range *iv.Referrers() {
						switch rv := r.(type) {
						case *ssa.UnOp, *ssa.DebugRef:
						case *ssa.Store:
							if rv.Addr == iv {
								typeBad[typeName(pt.Elem())] = funcKey(f) + " writes field " + fieldNameAt(pt.Elem(), []int{iv.Field}) + " of a " + typeName(pt.Elem()) + " it did not allocate"
							} else {
								typeBad[typeName(pt.Elem())] = funcKey(f) + " leaks a field address of " + typeName(pt.Elem())
							}
						default:
							typeBad[typeName(pt.Elem())] = fmt.Sprintf("%s passes a field address of %s to %T", funcKey(f), typeName(pt.Elem()), r)
						}
					}
				}
			}
		}
	}
	for _, c := range cands {
		name := c.g.Pkg.Pkg.Name() + "." + c.g.Name()
		why := c.bad
		if why == "" {
			why = globalBad[c.g]
		}
		if why == "" && globalStores[c.g] != 1 {
			why = fmt.Sprintf("%d assignments", globalStores[c.g])
		}
		if why == "" {
			why = typeBad[typeName(c.named)]
		}
		if why != "" {
			constGlobalViol = append(constGlobalViol, name+": "+why)
			continue
		}
		cg := constGlobal{Name: name, AddrSym: sanitize("g." + name), ValSym: sanitize("gv." + name), CellComp: cellComp(SI)}
		for i := 0; i < c.st.NumFields(); i++ {
			cg.Fields = append(cg.Fields, constField{Comp: fieldComp(c.named, []int{i}), Val: c.fields[i]})
		}
		constGlobals = append(constGlobals, cg)
	}
	sort.Strings(constGlobalViol)
}

// constGlobalAxioms: the facts for every heap version occurring in a query.
func constGlobalAxioms(used map[string]bool) (axioms []string, decls []string) {
	var syms []string
	for s := range used {
		syms = append(syms, s)
	}
	sort.Strings(syms)
	for _, cg := range constGlobals {
		if !used[cg.AddrSym] {
			continue
		}
		decls = append(decls, cg.ValSym)
		axioms = append(axioms, fmt.Sprintf("(assert (> %s 0))", cg.ValSym))
		if used["wm0"] {
			axioms = append(axioms, fmt.Sprintf("(assert (<= %s wm0))", cg.ValSym))
		}
		for _, s := range syms {
			if strings.HasPrefix(s, cg.CellComp+"@") {
				axioms = append(axioms, fmt.Sprintf("(assert (= (select %s %s) %s))", s, cg.AddrSym, cg.ValSym))
			}
			for _, f := range cg.Fields {
				if strings.HasPrefix(s, f.Comp+"@") {
					axioms = append(axioms, fmt.Sprintf("(assert (= (select %s %s) %s))", s, cg.ValSym, TBig(f.Val).S))
				}
			}
		}
	}
	return
}

func init() {
	frameScans["const-globals"] = func(eng *Engine) ([]string, int) {
		if len(constGlobals) == 0 && len(constGlobalViol) == 0 {
			return []string{"no initialised constant global found"}, constGlobalScans + 1
		}
		return constGlobalViol, constGlobalScans
	}
}
