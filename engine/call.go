package main

// Calls: by contract, by inlining, by extern model; call logs; frames (modifies).

import (
	"sort"
	"fmt"
	"go/types"
	"strings"

	"golang.org/x/tools/go/ssa"
)

type callSig struct {
	names []string
	types []types.Type
}

// calleeKey computes the log/contract key of a call.
func (x *Exec) calleeKey(st *State, fr *Frame, cc *ssa.CallCommon) string {
	if cc.IsInvoke() {
		return ifaceKey(cc.Value.Type(), cc.Method.Name())
	}
	switch v := cc.Value.(type) {
	case *ssa.Function:
		return funcKey(v)
	case *ssa.MakeClosure:
		return funcKey(v.Fn.(*ssa.Function))
	case *ssa.Builtin:
		return "builtin." + v.Name()
	}
	if k := fieldCallKey(cc.Value); k != "" {
		return k
	}
	if fr != nil {
		if c, ok := fr.regs[cc.Value].(*CloVal); ok {
			return funcKey(c.Fn)
		}
		if f, ok := fr.regs[cc.Value].(*FuncVal); ok {
			return funcKey(f.Fn)
		}
	}
	return "funcvalue"
}

func ifaceKey(t types.Type, method string) string {
	name := typeName(t)
	return name + "." + method
}

// fieldCallKey: a call of a function value loaded from a struct field
// ("field:observer.listener"), or from a parameter ("param:f").
func fieldCallKey(v ssa.Value) string {
	if u, ok := v.(*ssa.UnOp); ok {
		if fa, ok := u.X.(*ssa.FieldAddr); ok {
			root := fa.X.Type().(*types.Pointer).Elem()
			return "field:" + typeName(root) + "." + fieldNameAt(root, []int{fa.Field})
		}
		if a, ok := u.X.(*ssa.Alloc); ok && a.Comment != "" {
			return "var:" + a.Comment
		}
	}
	if p, ok := v.(*ssa.Parameter); ok {
		return "var:" + p.Name()
	}
	return ""
}

func (x *Exec) logCall(st *State, key string, args []Val, ts []types.Type) {
	x.logCallOpt(st, key, args, ts, false)
}

// logCallOpt: with shallow, closures are logged by their function id only (the
// callee model runs them inline; they do not escape into the heap).
func (x *Exec) logCallOpt(st *State, key string, args []Val, ts []types.Type, shallow bool) {
	if !x.eng.logKeys[key] {
		return
	}
	n := st.comp("N!"+sanitize(key), SI)
	dn := st.comp("D!"+sanitize(key), SI)
	for j, a := range args {
		var t types.Type
		if j < len(ts) {
			t = ts[j]
		}
		var term Term
		switch v := a.(type) {
		case *StructVal:
			term = st.box(v)
		case *CloVal:
			if shallow {
				term = x.funcID(v.Fn)
			} else {
				term = st.scalar(a, t)
			}
		default:
			term = st.scalar(a, t)
		}
		name := fmt.Sprintf("A!%s!%d", sanitize(key), j)
		arr := st.comp(name, ArrSort(SI, term.Sort))
		st.setComp(name, Sto(arr, n, term))
		// log of the calls made directly by this function (never touched by callee contracts)
		dname := fmt.Sprintf("DA!%s!%d", sanitize(key), j)
		darr := st.comp(dname, ArrSort(SI, term.Sort))
		st.setComp(dname, Sto(darr, dn, term))
	}
	// counters of other logs at the time of this call (countat)
	for k := range x.eng.logKeys {
		if strings.HasPrefix(k, "countat:"+key+":") {
			other := strings.TrimPrefix(k, "countat:"+key+":")
			cname := "CS!" + sanitize(key) + "!" + sanitize(other)
			arr := st.comp(cname, ArrSort(SI, SI))
			st.setComp(cname, Sto(arr, n, st.comp("N!"+sanitize(other), SI)))
		}
	}
	// global order of logged calls
	tnow := st.comp("T!", SI)
	tsName := "TS!" + sanitize(key)
	tsArr := st.comp(tsName, ArrSort(SI, SI))
	st.setComp(tsName, Sto(tsArr, n, tnow))
	st.setComp("T!", Add(tnow, TInt(1)))
	// index of the latest call by argument value, for the arguments a contract asks for (lastcall)
	if sig := x.eng.callSigs[key]; sig != nil {
		for j, name := range sig.names {
			if j < len(args) && name != "" && x.eng.logKeys["lastcall:"+key+":"+name] {
				cname := fmt.Sprintf("L!%s!%d", sanitize(key), j)
				arr := st.comp(cname, ArrSort(SI, SI))
				st.setComp(cname, Sto(arr, st.scalar(args[j], sig.types[j]), n))
			}
		}
	}
	st.setComp("N!"+sanitize(key), Add(n, TInt(1)))
	// direct calls made by the function under verification itself (never havoc'd by callee contracts)
	d := st.comp("D!"+sanitize(key), SI)
	st.setComp("D!"+sanitize(key), Add(d, TInt(1)))
}

// logRet records the (scalar) result of the latest logged call of key.
func (x *Exec) logRet(st *State, key string, res Val, resT types.Type) {
	if !x.eng.logKeys[key] || res == nil || resT == nil {
		return
	}
	tvs := resultTVs(res, resT)
	n := Sub(st.comp("N!"+sanitize(key), SI), TInt(1))
	for j, tv := range tvs {
		if tv.T == nil || sortOf(tv.T) == "" {
			continue
		}
		term := st.scalar(tv.V, tv.T)
		name := fmt.Sprintf("R!%s!%d", sanitize(key), j)
		arr := st.comp(name, ArrSort(SI, term.Sort))
		st.setComp(name, Sto(arr, n, term))
		dname := fmt.Sprintf("DR!%s!%d", sanitize(key), j)
		darr := st.comp(dname, ArrSort(SI, term.Sort))
		st.setComp(dname, Sto(darr, Sub(st.comp("D!"+sanitize(key), SI), TInt(1)), term))
	}
}

// call dispatches a call instruction. fnVal/args are given for deferred calls.
func (x *Exec) call(st *State, site ssa.Value, cc *ssa.CallCommon, fnVal Val, args []Val, k func(st *State, res Val)) {
	fr := st.top()
	if args == nil {
		for _, a := range cc.Args {
			args = append(args, x.get(st, fr, a))
		}
	}
	var resT types.Type
	if site != nil {
		resT = site.Type()
	} else {
		resT = cc.Signature().Results()
	}
	{
		key := x.calleeKey(st, fr, cc)
		// the call may sit in the function under contract itself or in a helper inlined into it
		if top := st.frames[0]; top.contract != nil && top.contract.Relies[key] != nil && !x.lemmaMode {
			rs := top.contract.Relies[key]
			if rs.PreSnap != "" {
				// the state in which the call is made
				if top.snaps == nil {
					top.snaps = map[string]map[string]Term{}
				}
				top.snaps[rs.PreSnap] = st.snapshot()
			}
			k1 := k
			k = func(st2 *State, res Val) {
				x.applyRely(st2, rs)
				k1(st2, res)
			}
		}
		if x.eng.logKeys[key] {
			k0 := k
			k = func(st2 *State, res Val) {
				x.logRet(st2, key, res, resT)
				k0(st2, res)
			}
		}
	}
	if cc.IsInvoke() {
		recv := fnVal
		if recv == nil {
			recv = x.get(st, fr, cc.Value)
		}
		x.invoke(st, cc, recv.(Term), args, resT, k)
		return
	}
	if fnVal == nil {
		fnVal = x.get(st, fr, cc.Value)
	}
	switch f := fnVal.(type) {
	case *ssa.Builtin:
		k(st, x.builtin(st, fr, f, cc, args, resT))
		return
	case *FuncVal:
		x.callFunc(st, cc, f.Fn, args, nil, resT, k)
		return
	case *CloVal:
		x.callFunc(st, cc, f.Fn, args, f.Bind, resT, k)
		return
	case Term:
		key := x.calleeKey(st, fr, cc)
		x.implicitPanic(st, Eq(f, TInt(0)), "nilfunc", "call of nil function value "+key)
		if c := x.eng.contractByKey(key); c != nil {
			x.applyContract(st, c, nil, cc.Signature(), args, resT, key, callArgTypes(cc, args), k)
			return
		}
		x.logCall(st, key, args, callArgTypes(cc, args))
		x.note(&x.trusted, "call of function value "+key+": assumed not to write the modelled heap; result unconstrained")
		st.bumpWM()
		k(st, x.freshResult(st, "r."+key, resT))
		return
	}
	unsup("call of %T", fnVal)
}

func (x *Exec) freshResult(st *State, prefix string, t types.Type) Val {
	if t == nil {
		return nil
	}
	if tup, ok := t.(*types.Tuple); ok {
		if tup.Len() == 0 {
			return nil
		}
		if tup.Len() == 1 {
			return st.freshVal(prefix, tup.At(0).Type())
		}
	}
	return st.freshVal(prefix, t)
}

func (x *Exec) callFunc(st *State, cc *ssa.CallCommon, fn *ssa.Function, args []Val, bind []Val, resT types.Type, k func(st *State, res Val)) {
	key := funcKey(fn)
	ats := callArgTypes(cc, args)
	if h := x.eng.externs[key]; h != nil {
		x.logCallOpt(st, key, args, ats, inlineExtern[key])
		h(x, st, cc, fn, args, resT, k)
		return
	}
	// method on ConcurrentSwissMap and other modelled generics
	if h := x.eng.externByOrigin(fn); h != nil {
		x.logCallOpt(st, key, args, ats, inlineExtern[key])
		h(x, st, cc, fn, args, resT, k)
		return
	}
	c := x.eng.contractFor(fn)
	top := st.frames[0]
	if c != nil && !c.Inline && fn != top.fn {
		x.applyContract(st, c, fn, fn.Signature, args, resT, key, ats, k)
		return
	}
	if c != nil && fn == top.fn {
		unsup("recursive call of %s", key)
	}
	if len(fn.Blocks) > 0 && x.eng.inRepo(fn) {
		x.logCall(st, key, args, ats)
		x.inline(st, fn, args, bind, k)
		return
	}
	if len(fn.Blocks) > 0 && strings.HasSuffix(fn.Name(), "$bound") || len(fn.Blocks) > 0 && fn.Synthetic != "" && x.eng.inRepoSynthetic(fn) {
		x.inline(st, fn, args, bind, k)
		return
	}
	// unknown external function
	x.logCall(st, key, args, ats)
	x.note(&x.trusted, "extern "+key+": assumed not to write the modelled heap; result unconstrained")
	st.bumpWM()
	res := x.freshResult(st, "r."+fn.Name(), resT)
	x.logRet(st, key, res, resT)
	k(st, res)
}

func (x *Exec) invoke(st *State, cc *ssa.CallCommon, recv Term, args []Val, resT types.Type, k func(st *State, res Val)) {
	key := ifaceKey(cc.Value.Type(), cc.Method.Name())
	x.implicitPanic(st, Eq(recv, TInt(0)), "nil", "method call on nil interface "+key)
	full := append([]Val{recv}, args...)
	ats := append([]types.Type{cc.Value.Type()}, callArgTypes(cc, args)...)
	if h := x.eng.externs[key]; h != nil {
		x.logCall(st, key, full, ats)
		h(x, st, cc, nil, full, resT, k)
		return
	}
	if c := x.eng.contractByKey(key); c != nil {
		x.applyContract(st, c, nil, cc.Signature(), full, resT, key, ats, k)
		return
	}
	x.logCall(st, key, full, ats)
	x.note(&x.trusted, "interface call "+key+": assumed not to write the modelled heap; result unconstrained")
	st.bumpWM()
	k(st, x.freshResult(st, "r."+cc.Method.Name(), resT))
}

// applyContract: assert pre, havoc modifies, assume post.
func (x *Exec) applyContract(st *State, c *Contract, fn *ssa.Function, sig *types.Signature, args []Val, resT types.Type, key string, ats []types.Type, k func(st *State, res Val)) {
	e := &Env{x: x, st: st, vars: map[string]TV{}, lets: map[string]Expr{}, pures: x.eng.pures, pkg: x.eng.typesPkg(c.Pkg)}
	for _, l := range c.Lets {
		e.lets[l.Name] = l.E
	}
	// bind parameter names
	names, ptypes := paramNames(c, fn, sig)
	if len(names) != len(args) {
		unsup("contract %s: %d parameter names for %d arguments", c.Key, len(names), len(args))
	}
	for i, n := range names {
		if n == "" || n == "_" {
			continue
		}
		e.vars[n] = TV{args[i], ptypes[i]}
	}
	if fn != nil {
		for i, fv := range fn.FreeVars {
			_ = i
			_ = fv
		}
	}
	// values that live on the Go side (local cells, closures) escape into the
	// heap before the pre-state is fixed
	for i, a := range args {
		switch a.(type) {
		case *PLocal, *CloVal, *FuncVal:
			args[i] = st.scalar(a, nil)
			if n := names[i]; n != "" && n != "_" {
				e.vars[n] = TV{args[i], ptypes[i]}
			}
		}
	}
	pre := st.snapshot()
	preWM := st.wmNow()
	e.old = pre
	e.oldWM = preWM
	cur := st.frames[0].contract
	var props []string
	if cur != nil {
		props = cur.Props
	}
	for _, cl := range c.ByKind("requires") {
		g := x.safeGoal(e, cl)
		x.oblige(st, "call."+shortKey(key)+"."+clauseName(cl), props, g, "precondition of "+key+": "+cl.Src)
		st.assume(x.safeAssume(e, cl))
	}
	// domain clauses: the contract speaks only about calls inside its domain
	dom := TTrue
	for _, cl := range c.ByKind("domain") {
		dom = And(dom, x.safeBool(e, cl))
	}
	x.logCall(st, key, args, ats)
	// havoc
	st.bumpWM()
	if modifiesAnything(c) {
		unsup("call of %s whose contract declares no frame (modifies anything)", key)
	}
	x.havocLocsEnv(st, e, c.ByKind("modifies"))
	// result
	res := x.freshResult(st, "r."+shortKey(key), resT)
	e.result = resultTVs(res, resT)
	for _, cl := range c.ByKind("panics") {
		var cond Term
		e.withHeap(pre, func() TV { cond = x.safeBool(e, cl); return TV{} })
		st.assume(Imp(dom, Not(cond)))
	}
	// intermediate states named by the callee (rely ... snap L): unknown heaps
	if len(c.Relies) > 0 {
		e.snaps = map[string]map[string]Term{}
		for _, rs := range c.Relies {
			for _, label := range []string{rs.Snap, rs.PreSnap} {
				if label == "" {
					continue
				}
				h := map[string]Term{}
				for name, t := range st.heap {
					h[name] = x.freshNamed(name+"!"+label, t.Sort)
				}
				e.snaps[label] = h
			}
		}
		x.lastCalleeSnaps = e.snaps
	}
	for _, cl := range c.ByKind("ensures") {
		if x.localClause(c, cl) {
			continue
		}
		st.assume(Imp(dom, x.safeAssume(e, cl)))
	}
	for _, cl := range c.ByKind("assume") {
		st.assume(x.safeAssume(e, cl))
	}
	if c.Trusted {
		x.note(&x.trusted, "assumed contract: "+c.Kind+" "+c.Key)
	}
	k(st, res)
}

func shortKey(key string) string {
	return sanitize(key)
}

func resultTVs(res Val, resT types.Type) []TV {
	if resT == nil {
		return nil
	}
	if tup, ok := resT.(*types.Tuple); ok {
		if tup.Len() == 0 {
			return nil
		}
		if tup.Len() == 1 {
			return []TV{{res, tup.At(0).Type()}}
		}
		tv := res.(*TupleVal)
		var out []TV
		for i := 0; i < tup.Len(); i++ {
			out = append(out, TV{tv.V[i], tup.At(i).Type()})
		}
		return out
	}
	return []TV{{res, resT}}
}

func paramNames(c *Contract, fn *ssa.Function, sig *types.Signature) ([]string, []types.Type) {
	var names []string
	var ts []types.Type
	if fn != nil && len(fn.Params) > 0 {
		for i, p := range fn.Params {
			n := p.Name()
			// a func contract may fix the names it uses for the parameters (by position): renaming a
			// parameter or receiver in the code then does not touch the contract
			if c != nil && (c.Kind == "func" || c.Kind == "extern") && len(c.Params) == len(fn.Params) {
				n = c.Params[i]
			}
			names = append(names, n)
			ts = append(ts, p.Type())
		}
		return names, ts
	}
	if fn != nil && sig != nil {
		// external function: no SSA parameters; use the signature
		if r := sig.Recv(); r != nil {
			names = append(names, "recv")
			ts = append(ts, r.Type())
		}
		for i := 0; i < sig.Params().Len(); i++ {
			names = append(names, sig.Params().At(i).Name())
			ts = append(ts, sig.Params().At(i).Type())
		}
		return names, ts
	}
	// iface / func value: receiver first if invoke
	if len(c.Params) > 0 {
		names = append(names, c.Params...)
	}
	if sig != nil {
		var sn []string
		var stypes []types.Type
		if c.Kind == "iface" {
			sn = append(sn, "recv")
			stypes = append(stypes, x_ifaceRecvType(c))
		}
		for i := 0; i < sig.Params().Len(); i++ {
			sn = append(sn, sig.Params().At(i).Name())
			stypes = append(stypes, sig.Params().At(i).Type())
		}
		if len(names) == 0 {
			names = sn
		}
		ts = stypes
	}
	for len(ts) < len(names) {
		ts = append(ts, nil)
	}
	return names, ts
}

func x_ifaceRecvType(c *Contract) types.Type { return nil }

// ---------- locations (modifies) ----------

type Loc struct {
	comp  string
	sort  string // sort of the component
	ref   *Term  // nil: whole scalar component / any index
	above *Term  // with ref == nil: only objects with ref > above (objects allocated since)
	log   string // call log of this key: append-only havoc
}

func (x *Exec) locsOf(e *Env, clauses []*Clause) []Loc {
	var out []Loc
	for _, cl := range clauses {
		for _, le := range cl.Locs {
			out = append(out, x.evalLoc(e, le, cl)...)
		}
	}
	return out
}

func (x *Exec) evalLoc(e *Env, le Expr, cl *Clause) (out []Loc) {
	defer func() {
		if r := recover(); r != nil {
			if se, ok := r.(specErr); ok {
				unsup("modifies clause %q: %s", cl.Src, se.msg)
			}
			panic(r)
		}
	}()
	st := e.st
	mk := func(comp, sort string, ref Term) Loc { r := ref; return Loc{comp: comp, sort: sort, ref: &r} }
	var res []Loc
	e.withHeap(e.old, func() TV {
		switch v := le.(type) {
		case *ECall:
			switch v.Fn {
			case "content":
				m := e.eval(v.Args[0])
				kt, vt, ok := mapKV(m.T)
				if !ok {
					sfail("content() of non-map")
				}
				ref := e.toTerm(m)
				hn, vn, s := mapNames(kt, vt)
				res = append(res, mk(hn, hasSort, ref), mk(vn, ArrSort(SI, ArrSort(SI, s)), ref))
			case "calls":
				key := exprKey(v.Args[0])
				res = append(res, Loc{comp: "N!" + sanitize(key), sort: SI, log: key})
			case "fields":
				p := e.eval(v.Args[0])
				pt, ok := under(p.T).(*types.Pointer)
				if !ok {
					sfail("fields() of non-pointer")
				}
				ref := e.toTerm(p)
				for _, lf := range leaves(pt.Elem()) {
					res = append(res, mk(fieldComp(pt.Elem(), lf.path), ArrSort(SI, sortOf(lf.typ)), ref))
				}
			case "elems":
				s := e.eval(v.Args[0])
				et := under(s.T).(*types.Slice).Elem()
				arr := slArr(e.toTerm(s))
				if isStruct(et) {
					for _, lf := range leaves(et) {
						n, so := elemComp(et, lf.path)
						res = append(res, mk(n, ArrSort(SI, ArrSort(SI, so)), arr))
					}
				} else {
					n, so := elemComp(et, nil)
					res = append(res, mk(n, ArrSort(SI, ArrSort(SI, so)), arr))
				}
			case "chan":
				ch := e.toTerm(e.eval(v.Args[0]))
				for _, c := range []string{"CH!sent", "CH!rcvd", "CH!own"} {
					res = append(res, mk(c, ArrSort(SI, SI), ch))
				}
				res = append(res, mk("CH!closed", ArrSort(SI, SB), ch))
				res = append(res, mk("CH!buf!Int", ArrSort(SI, ArrSort(SI, SI)), ch))
			case "ghost":
				name := exprKey(v.Args[0])
				g := x.eng.ghost(name)
				if g == nil {
					sfail("unknown ghost %s", name)
				}
				res = append(res, Loc{comp: "G!" + name, sort: g.Sort})
			case "atomic":
				// atomic(x.f): the value of a sync/atomic field
				p := e.eval(v.Args[0])
				pr, ok := p.V.(*PRef)
				if !ok {
					if t, isTerm := p.V.(Term); isTerm {
						res = append(res, mk("AT!", ArrSort(SI, SI), t))
						break
					}
					sfail("atomic() needs a struct field or a pointer to an atomic value")
				}
				res = append(res, mk("AT!"+typeName(pr.Root)+"!"+fieldNameAt(pr.Root, pr.Path), ArrSort(SI, SI), pr.Ref))
			case "mutex":
				p := e.eval(v.Args[0])
				pr, ok := p.V.(*PRef)
				if !ok {
					sfail("mutex() needs a struct field")
				}
				res = append(res, mk("MU!"+typeName(pr.Root)+"!"+fieldNameAt(pr.Root, pr.Path), ArrSort(SI, SB), pr.Ref))
			case "newobjs":
				// every field of objects of struct type T allocated after the old state
				t := e.resolveType(exprKey(v.Args[0]))
				if !isStruct(t) {
					sfail("newobjs() needs a struct type")
				}
				wm := e.oldWM
				for _, lf := range leaves(t) {
					res = append(res, Loc{comp: fieldComp(t, lf.path), sort: ArrSort(SI, sortOf(lf.typ)), above: &wm})
				}
			case "fieldof":
				// fieldof(T, f): field f of every object of struct type T (the whole heap component)
				t := e.resolveType(exprKey(v.Args[0]))
				if !isStruct(t) {
					sfail("fieldof() needs a struct type")
				}
				found := false
				for _, lf := range leaves(t) {
					if fieldNameAt(t, lf.path) == exprKey(v.Args[1]) {
						res = append(res, Loc{comp: fieldComp(t, lf.path), sort: ArrSort(SI, sortOf(lf.typ))})
						found = true
					}
				}
				if !found {
					sfail("fieldof(): no field %s", exprKey(v.Args[1]))
				}
			case "cell":
				p := e.eval(v.Args[0])
				pt := under(p.T).(*types.Pointer)
				s := sortOf(pt.Elem())
				res = append(res, mk(cellComp(s), ArrSort(SI, s), e.toTerm(p)))
			default:
				sfail("unknown location form %s()", v.Fn)
			}
		case *ESel:
			base := e.eval(v.X)
			tv := base
			var pkg *types.Package
			t := tv.T
			if p, ok := under(t).(*types.Pointer); ok {
				t = p.Elem()
			}
			if n, ok := types.Unalias(t).(*types.Named); ok {
				pkg = n.Obj().Pkg()
			}
			obj, index, _ := types.LookupFieldOrMethod(tv.T, true, pkg, v.Name)
			if obj == nil {
				sfail("no field %s", v.Name)
			}
			// walk to the object that directly holds the field
			cur := tv
			for _, i := range index[:len(index)-1] {
				cur = e.selIdx(cur, i)
			}
			last := index[len(index)-1]
			switch {
			case under(cur.T) != nil && isPtrToStruct(cur.T):
				root := under(cur.T).(*types.Pointer).Elem()
				ref := e.toTerm(cur)
				ft := fieldTypeAt(root, []int{last})
				if isStruct(ft) {
					for _, lf := range leaves(ft) {
						path := append([]int{last}, lf.path...)
						res = append(res, mk(fieldComp(root, path), ArrSort(SI, sortOf(lf.typ)), ref))
					}
				} else {
					res = append(res, mk(fieldComp(root, []int{last}), ArrSort(SI, sortOf(ft)), ref))
				}
			default:
				if p, ok := cur.V.(*PRef); ok {
					path := append(append([]int(nil), p.Path...), last)
					ft := fieldTypeAt(p.Root, path)
					if isStruct(ft) {
						for _, lf := range leaves(ft) {
							full := append(append([]int(nil), path...), lf.path...)
							res = append(res, mk(fieldComp(p.Root, full), ArrSort(SI, sortOf(lf.typ)), p.Ref))
						}
					} else {
						res = append(res, mk(fieldComp(p.Root, path), ArrSort(SI, sortOf(ft)), p.Ref))
					}
				} else {
					sfail("cannot take location of %s", v.Name)
				}
			}
		default:
			sfail("unsupported location expression")
		}
		return TV{}
	})
	_ = st
	return res
}

func isPtrToStruct(t types.Type) bool {
	p, ok := under(t).(*types.Pointer)
	return ok && isStruct(p.Elem())
}

func (x *Exec) havocLocsEnv(st *State, e *Env, clauses []*Clause) {
	for _, l := range x.locsOf(e, clauses) {
		x.havocLoc(st, l)
	}
}

func (x *Exec) havocLoc(st *State, l Loc) {
	if l.log != "" {
		// a call log only grows: the counter increases, earlier entries are kept
		key := sanitize(l.log)
		oldN := st.comp("N!"+key, SI)
		newN := st.havocComp("N!"+key, SI)
		st.assume(Ge(newN, oldN))
		prefix := "A!" + key + "!"
		rprefix := "R!" + key + "!"
		for name, t := range st.heap {
			if strings.HasPrefix(name, "L!"+key+"!") {
				st.havocComp(name, t.Sort)
			}
		}
		names := map[string]string{}
		for name, t := range st.heap {
			if strings.HasPrefix(name, prefix) || strings.HasPrefix(name, rprefix) {
				names[name] = t.Sort
			}
		}
		if sig := x.eng.callSigs[l.log]; sig != nil {
			for j, t := range sig.types {
				s := sortOf(t)
				if s == "" {
					s = SI
				}
				names[fmt.Sprintf("A!%s!%d", key, j)] = ArrSort(SI, s)
			}
		}
		for j, t := range x.eng.callRets[l.log] {
			if s := sortOf(t); s != "" {
				names[fmt.Sprintf("R!%s!%d", key, j)] = ArrSort(SI, s)
			}
		}
		names["TS!"+key] = ArrSort(SI, SI)
		for name, t := range st.heap {
			if strings.HasPrefix(name, "CS!"+key+"!") {
				names[name] = t.Sort
			}
		}
		tOld := st.comp("T!", SI)
		tNew := st.havocComp("T!", SI)
		st.assume(Ge(tNew, tOld))
		for name, sort := range names {
			cur := st.comp(name, sort)
			n := st.havocComp(name, sort)
			x.counter++
			i := Term{fmt.Sprintf("q.i!%d", x.counter), SI}
			st.assume(Forall([]Term{i}, Imp(Lt(i, oldN), Eq(Sel(n, i), Sel(cur, i)))))
		}
		return
	}
	if l.ref == nil && l.above != nil {
		cur := st.comp(l.comp, l.sort)
		n := st.havocComp(l.comp, l.sort)
		x.counter++
		r := Term{fmt.Sprintf("q.r!%d", x.counter), SI}
		st.assume(Forall([]Term{r}, Imp(Le(r, *l.above), Eq(Sel(n, r), Sel(cur, r)))))
		return
	}
	if l.ref == nil {
		st.havocComp(l.comp, l.sort)
		return
	}
	cur := st.comp(l.comp, l.sort)
	f := st.fresh("hv", arrValSort(l.sort))
	st.setComp(l.comp, Sto(cur, *l.ref, f))
}

// havocLocs for loops: locations are evaluated in the current frame.
func (x *Exec) havocLocs(st *State, fr *Frame, clauses []*Clause, _ *Env) {
	if len(clauses) == 0 {
		return
	}
	c := x.eng.contractFor(fr.fn)
	e := x.envFor(st, fr, c)
	e.locals = true
	e.old = st.snapshot()
	e.oldWM = x.loopEntryWM
	for _, l := range x.locsOf(e, clauses) {
		x.havocLoc(st, l)
		if l.log != "" {
			x.havocDirectLog(st, l.log)
		}
	}
}

// havocDirectLog: a loop body makes direct calls of its own, so cutting the loop also havocs the
// function's direct-call log of key (counter grows, earlier entries are kept). Callee contracts never do.
func (x *Exec) havocDirectLog(st *State, log string) {
	key := sanitize(log)
	oldD := st.comp("D!"+key, SI)
	newD := st.havocComp("D!"+key, SI)
	st.assume(Ge(newD, oldD))
	names := map[string]string{}
	for name, t := range st.heap {
		if strings.HasPrefix(name, "DA!"+key+"!") || strings.HasPrefix(name, "DR!"+key+"!") {
			names[name] = t.Sort
		}
	}
	if sig := x.eng.callSigs[log]; sig != nil {
		for j, t := range sig.types {
			s := sortOf(t)
			if s == "" {
				s = SI
			}
			names[fmt.Sprintf("DA!%s!%d", key, j)] = ArrSort(SI, s)
		}
	}
	for j, t := range x.eng.callRets[log] {
		if s := sortOf(t); s != "" {
			names[fmt.Sprintf("DR!%s!%d", key, j)] = ArrSort(SI, s)
		}
	}
	var ordered []string
	for name := range names {
		ordered = append(ordered, name)
	}
	sort.Strings(ordered)
	for _, name := range ordered {
		cur := st.comp(name, names[name])
		n := st.havocComp(name, names[name])
		x.counter++
		i := Term{fmt.Sprintf("q.i!%d", x.counter), SI}
		st.assume(Forall([]Term{i}, Imp(Lt(i, oldD), Eq(Sel(n, i), Sel(cur, i)))))
	}
}

// frameCheck: every heap component that changed since base changed only at
// declared locations (or at objects allocated after base).
func (x *Exec) frameCheck(st *State, fr *Frame, base map[string]Term, baseWM Term, clauses []*Clause, locHeap map[string]Term, name string) {
	c := x.eng.contractFor(fr.fn)
	e := x.envFor(st, fr, c)
	e.locals = strings.HasPrefix(name, "loop")
	e.old = locHeap
	locs := x.locsOf(e, clauses)
	byComp := map[string][]Loc{}
	for _, l := range locs {
		byComp[l.comp] = append(byComp[l.comp], l)
	}
	for _, comp := range sortedKeys(st.heap) {
		cur := st.heap[comp]
		b, ok := base[comp]
		if !ok {
			b = x.declare(comp+"@0", cur.Sort)
		}
		if cur.S == b.S {
			continue
		}
		if strings.HasPrefix(comp, "C!") || strings.HasPrefix(comp, "B!") {
			// cells and closure objects: only fresh ones may be written unless declared
		}
		if strings.HasPrefix(comp, "A!") || strings.HasPrefix(comp, "R!") || comp == "T!" || strings.HasPrefix(comp, "TS!") || strings.HasPrefix(comp, "CS!") || strings.HasPrefix(comp, "D!") || strings.HasPrefix(comp, "DA!") || strings.HasPrefix(comp, "DR!") || strings.HasPrefix(comp, "L!") {
			continue // argument logs are covered by their N! counter
		}
		if !strings.HasPrefix(name, "loop") && (strings.HasPrefix(comp, "MU!") || strings.HasPrefix(comp, "ONCE!") || strings.HasPrefix(comp, "WG!")) {
			continue // lock / once / wait-group state is not part of a function's frame; a loop cut keeps it, so a loop body must restore it
		}
		ls := byComp[comp]
		whole := false
		for _, l := range ls {
			if l.ref == nil && l.above == nil {
				whole = true // includes call logs (their append-only shape is by construction)
			}
		}
		if whole {
			continue
		}
		var goal Term
		if !strings.HasPrefix(cur.Sort, "(Array") {
			goal = Eq(cur, b)
		} else {
			x.counter++
			r := Term{fmt.Sprintf("q.r!%d", x.counter), SI}
			var except []Term
			for _, l := range ls {
				if l.ref != nil {
					except = append(except, Eq(r, *l.ref))
				} else if l.above != nil {
					except = append(except, Gt(r, *l.above))
				}
			}
			except = append(except, Gt(r, baseWM))
			goal = Forall([]Term{r}, Or(append(except, Eq(Sel(cur, r), Sel(b, r)))...))
		}
		x.oblige(st, name, nil, goal, "frame: "+comp+" changes only where declared")
	}
}


// localClause: an ensures clause that mentions the function's direct-call log
// (possibly through a let) is not part of the contract seen by callers.
func (x *Exec) localClause(c *Contract, cl *Clause) bool {
	if mentionsDirect(cl.E) {
		return true
	}
	// lets are macros: look through the ones the clause uses
	used := map[string]bool{}
	collectIdents(cl.E, used)
	for _, l := range c.Lets {
		if used[l.Name] && mentionsDirect(l.E) {
			return true
		}
	}
	return false
}

func collectIdents(e Expr, out map[string]bool) {
	switch x := e.(type) {
	case *EIdent:
		out[x.Name] = true
	case *EUn:
		collectIdents(x.X, out)
	case *EBin:
		collectIdents(x.X, out)
		collectIdents(x.Y, out)
	case *ESel:
		collectIdents(x.X, out)
	case *EIdx:
		collectIdents(x.X, out)
		collectIdents(x.I, out)
	case *EQuant:
		collectIdents(x.Body, out)
	case *ECall:
		for _, a := range x.Args {
			collectIdents(a, out)
		}
	}
}


// applyRely: while the call was in flight other goroutines may have acted on
// the declared locations, within the declared guarantee (old = before).
func (x *Exec) applyRely(st *State, rs *RelySpec) {
	fr := st.frames[0]
	e := x.envFor(st, fr, fr.contract)
	e.locals = true
	pre := st.snapshot()
	e.old = pre
	e.oldWM = st.wmNow()
	st.bumpWM()
	for _, l := range x.locsOf(e, rs.Modifies) {
		x.havocLoc(st, l)
	}
	for _, cl := range rs.Ensures {
		st.assume(x.safeAssume(e, cl))
	}
	if rs.Snap != "" {
		if fr.snaps == nil {
			fr.snaps = map[string]map[string]Term{}
		}
		fr.snaps[rs.Snap] = st.snapshot()
	}
	x.note(&x.trusted, "rely at the call of "+rs.Key+": other goroutines act only within the declared guarantee")
}


// inlineExtern: library functions whose model runs the closure argument inline
// (the closure does not escape).
var inlineExtern = map[string]bool{
	"wrapper.(*ConcurrentSwissMap).Range":   true,
	"wrapper.(*ConcurrentSwissMap).StoreIf": true,
	"sync.(*Once).Do":                       true,
}
