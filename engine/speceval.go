package main

// Evaluation of contract expressions against a symbolic state.

import (
	"os"
	"fmt"
	"go/constant"
	"go/types"
	"math/big"
	"strings"

	"golang.org/x/tools/go/ssa"
)

type TV struct {
	V Val
	T types.Type
}

type Env struct {
	x       *Exec
	st      *State
	vars    map[string]TV
	lets    map[string]Expr
	old     map[string]Term // heap snapshot old() refers to
	oldWM   Term
	fr      *Frame // locals (loop invariants); may be nil
	locals  bool   // prefer current local values over entry parameter values
	pkg     *types.Package
	result  []TV
	pures   map[string]*PureDef
	capture *[]Term
	snaps   map[string]map[string]Term
	reveal  map[string]bool
	pol     int // +1: the formula is a goal, -1: an assumption, 0: unknown
	callee  *ssa.Function
}

type specErr struct{ msg string }

func sfail(f string, a ...interface{}) { panic(specErr{fmt.Sprintf(f, a...)}) }

func (e *Env) flip() *Env {
	if e.pol == 0 {
		return e
	}
	c := *e
	c.pol = -e.pol
	return &c
}

func (e *Env) neutral() *Env {
	if e.pol == 0 {
		return e
	}
	c := *e
	c.pol = 0
	return &c
}

func (e *Env) child() *Env {
	c := *e
	c.vars = make(map[string]TV, len(e.vars)+2)
	for k, v := range e.vars {
		c.vars[k] = v
	}
	return &c
}

// withHeap evaluates f against another heap (old state) while keeping path
// assumptions in the real state.
func (e *Env) withHeap(h map[string]Term, f func() TV) TV {
	saved := e.st.heap
	view := make(map[string]Term, len(h))
	for k, v := range h {
		view[k] = v
	}
	e.st.heap = view
	defer func() {
		e.st.heap = saved
	}()
	return f()
}

func (e *Env) boolTerm(ex Expr) Term {
	tv := e.eval(ex)
	t, ok := tv.V.(Term)
	if !ok || t.Sort != SB {
		sfail("expected a boolean, got %T %v", tv.V, tv.V)
	}
	return t
}

func (e *Env) intTerm(ex Expr) Term {
	tv := e.eval(ex)
	return e.toTerm(tv)
}

func (e *Env) toTerm(tv TV) Term {
	switch v := tv.V.(type) {
	case Term:
		return v
	case nil:
		return TInt(0)
	default:
		return e.st.scalar(tv.V, tv.T)
	}
}

var basicByName = map[string]types.Type{}

func init() {
	for _, b := range types.Typ {
		basicByName[b.Name()] = b
	}
	basicByName["byte"] = types.Typ[types.Uint8]
	basicByName["rune"] = types.Typ[types.Int32]
}

// resolveType resolves a type name used in a contract ("uint16", "*models.Offset").
func (e *Env) resolveType(name string) types.Type {
	if strings.HasPrefix(name, "*") {
		return types.NewPointer(e.resolveType(name[1:]))
	}
	if strings.HasPrefix(name, "[]") {
		return types.NewSlice(e.resolveType(name[2:]))
	}
	if strings.HasPrefix(name, "map[") {
		if i := strings.Index(name, "]"); i > 0 {
			return types.NewMap(e.resolveType(name[4:i]), e.resolveType(name[i+1:]))
		}
	}
	if b, ok := basicByName[name]; ok {
		return b
	}
	if name == "any" || name == "error" {
		return types.Universe.Lookup(name).Type()
	}
	if name == "mathint" {
		return nil
	}
	pkgName, tn := "", name
	if i := strings.LastIndex(name, "."); i >= 0 {
		pkgName, tn = name[:i], name[i+1:]
	}
	if t := e.x.eng.lookupType(e.pkg, pkgName, tn); t != nil {
		return t
	}
	sfail("unknown type %q", name)
	return nil
}

func (e *Env) eval(ex Expr) TV {
	switch x := ex.(type) {
	case *EInt:
		return TV{TBig(x.V), nil}
	case *EBool:
		return TV{TBool(x.V), types.Typ[types.Bool]}
	case *ENil:
		return TV{TInt(0), nil}
	case *EStr:
		return TV{e.x.eng.strLit(e.x, x.V), types.Typ[types.String]}
	case *EIdent:
		return e.ident(x.Name)
	case *EUn:
		switch x.Op {
		case "!":
			return TV{Not(e.flip().boolTerm(x.X)), types.Typ[types.Bool]}
		case "-":
			return TV{Neg(e.intTerm(x.X)), nil}
		case "*":
			tv := e.eval(x.X)
			return e.deref(tv)
		}
	case *EBin:
		return e.bin(x)
	case *ESel:
		// package-qualified name?
		if id, ok := x.X.(*EIdent); ok {
			if _, bound := e.lookup(id.Name); !bound {
				if tv, ok := e.qualified(id.Name, x.Name); ok {
					return tv
				}
			}
		}
		return e.sel(e.eval(x.X), x.Name)
	case *EIdx:
		return e.index(e.eval(x.X), x.I)
	case *ESliceE:
		tv := e.eval(x.X)
		s := e.toTerm(tv)
		lo := TInt(0)
		if x.Lo != nil {
			lo = e.intTerm(x.Lo)
		}
		hi := slLen(s)
		if x.Hi != nil {
			hi = e.intTerm(x.Hi)
		}
		return TV{e.st.mkSlice(slArr(s), Add(slOff(s), lo), Sub(hi, lo)), tv.T}
	case *ECall:
		return e.call(x)
	case *EQuant:
		return e.quant(x)
	}
	sfail("cannot evaluate %T", ex)
	return TV{}
}

func (e *Env) lookup(name string) (TV, bool) {
	if tv, ok := e.vars[name]; ok {
		return tv, true
	}
	if _, ok := e.lets[name]; ok {
		return TV{}, true
	}
	if e.fr != nil {
		if e.locals {
			if id, ok := e.fr.named[name]; ok {
				return e.cellTV(id), true
			}
		}
		fn := e.fr.fn
		if c := e.x.eng.contractFor(fn); c != nil && c.Kind == "func" && len(c.Params) == len(fn.Params) {
			// the contract's own names for the parameters, by position
			for i, n := range c.Params {
				if n == name {
					return TV{e.fr.params[i], fn.Params[i].Type()}, true
				}
			}
		}
		for i, p := range fn.Params {
			if p.Name() == name {
				return TV{e.fr.params[i], p.Type()}, true
			}
		}
		// positional parameters (param0, param1, ...): independent of how the code names them
		if strings.HasPrefix(name, "param") {
			var i int
			if _, err := fmt.Sscanf(name, "param%d", &i); err == nil && fmt.Sprintf("param%d", i) == name && i < len(fn.Params) {
				return TV{e.fr.params[i], fn.Params[i].Type()}, true
			}
		}
		if c := e.x.eng.contractFor(fn); c != nil && c.Kind == "func" && len(c.FreeVars) == len(fn.FreeVars) {
			for i, n := range c.FreeVars {
				if n == name {
					pt := fn.FreeVars[i].Type().(*types.Pointer).Elem()
					return TV{e.st.load(e.fr.freeCells[i], pt), pt}, true
				}
			}
		}
		for i, fv := range fn.FreeVars {
			if fv.Name() == name {
				pt := fv.Type().(*types.Pointer).Elem()
				return TV{e.st.load(e.fr.freeCells[i], pt), pt}, true
			}
		}
		if id, ok := e.fr.named[name]; ok {
			return e.cellTV(id), true
		}
		// a local of this function that is not declared on the current path:
		// an arbitrary value (clauses about it are normally guarded by a path condition)
		if fn != nil {
			for _, b := range fn.Blocks {
				for _, in := range b.Instrs {
					if a, ok := in.(*ssa.Alloc); ok && a.Comment == name {
						t := a.Type().(*types.Pointer).Elem()
						return TV{e.st.freshVal("undeclared."+name, t), t}, true
					}
				}
			}
		}
	}
	return TV{}, false
}

func (e *Env) cellTV(id int) TV {
	c := e.st.cells[id]
	if c == nil {
		sfail("local cell vanished")
	}
	return TV{e.st.load(&PLocal{Cell: id}, c.T), c.T}
}

func (e *Env) ident(name string) TV {
	if ex, ok := e.lets[name]; ok {
		if _, shadow := e.vars[name]; !shadow {
			return e.eval(ex)
		}
	}
	if len(e.result) > 0 && strings.HasPrefix(name, "result") {
		// the returned values win over a local variable of the same name
		if name == "result" {
			return e.result[0]
		}
		var i int
		if _, err := fmt.Sscanf(name, "result%d", &i); err == nil && i < len(e.result) && fmt.Sprintf("result%d", i) == name {
			return e.result[i]
		}
	}
	if os.Getenv("GOVC_WARN_LOCALS") != "" && len(e.result) > 0 && e.fr != nil {
		if _, ok := e.vars[name]; !ok {
			if _, ok := e.fr.named[name]; ok {
				isRes := false
				if sig := e.fr.fn.Signature; sig != nil {
					for i := 0; i < sig.Results().Len(); i++ {
						if sig.Results().At(i).Name() == name {
							isRes = true
						}
					}
				}
				for _, p := range e.fr.fn.Params {
					if p.Name() == name {
						isRes = true
					}
				}
				if !isRes {
					fmt.Fprintf(os.Stderr, "WARN-LOCAL %s: postcondition identifier %q is a local variable\n", funcKey(e.fr.fn), name)
				}
			}
		}
	}
	if tv, ok := e.lookup(name); ok {
		return tv
	}
	switch name {
	case "result":
		if len(e.result) == 0 {
			sfail("no result here")
		}
		return e.result[0]
	}
	if strings.HasPrefix(name, "result") {
		var i int
		if _, err := fmt.Sscanf(name, "result%d", &i); err == nil && i < len(e.result) {
			return e.result[i]
		}
	}
	// package-level object of the contract's package
	if e.pkg != nil {
		if tv, ok := e.pkgObject(e.pkg, name); ok {
			return tv
		}
	}
	if g := e.x.eng.ghost(name); g != nil {
		return TV{e.st.comp("G!"+name, g.Sort), nil}
	}
	sfail("unknown identifier %q", name)
	return TV{}
}

func (e *Env) qualified(pkgName, name string) (TV, bool) {
	p := e.x.eng.lookupPkg(e.pkg, pkgName)
	if p == nil {
		return TV{}, false
	}
	return e.pkgObject(p, name)
}

func (e *Env) pkgObject(p *types.Package, name string) (TV, bool) {
	obj := p.Scope().Lookup(name)
	switch o := obj.(type) {
	case *types.Const:
		switch o.Val().Kind() {
		case constant.Int:
			n, _ := new(big.Int).SetString(o.Val().ExactString(), 10)
			return TV{TBig(n), o.Type()}, true
		case constant.Bool:
			return TV{TBool(constant.BoolVal(o.Val())), o.Type()}, true
		case constant.String:
			return TV{e.x.eng.strLit(e.x, constant.StringVal(o.Val())), o.Type()}, true
		}
	case *types.Var:
		gname := "g." + p.Name() + "." + name
		ref := e.x.declare(sanitize(gname), SI)
		return TV{e.st.load(&PRef{Ref: ref, Root: o.Type()}, o.Type()), o.Type()}, true
	}
	return TV{}, false
}

func (e *Env) deref(tv TV) TV {
	pt, ok := under(tv.T).(*types.Pointer)
	if !ok {
		sfail("deref of non-pointer %v", tv.T)
	}
	return TV{e.st.load(tv.V, pt.Elem()), pt.Elem()}
}

// sel selects field name of tv (through pointers and embedded fields).
func (e *Env) sel(tv TV, name string) TV {
	if tv.T == nil {
		sfail("selector .%s on untyped value", name)
	}
	var pkg *types.Package
	t := tv.T
	if p, ok := under(t).(*types.Pointer); ok {
		t = p.Elem()
	}
	if n, ok := types.Unalias(t).(*types.Named); ok {
		pkg = n.Obj().Pkg()
	}
	obj, index, _ := types.LookupFieldOrMethod(tv.T, true, pkg, name)
	if obj == nil && pkg != e.pkg {
		obj, index, _ = types.LookupFieldOrMethod(tv.T, true, e.pkg, name)
	}
	fv, ok := obj.(*types.Var)
	if !ok || fv == nil {
		sfail("no field %s in %v", name, tv.T)
	}
	cur := tv
	for _, i := range index {
		cur = e.selIdx(cur, i)
	}
	return cur
}

func (e *Env) selIdx(tv TV, i int) TV {
	if pt, ok := under(tv.T).(*types.Pointer); ok {
		// pointer to struct
		ref := e.toTerm(tv)
		root := pt.Elem()
		s := under(root).(*types.Struct)
		ft := s.Field(i).Type()
		if isStruct(ft) {
			return TV{&PRef{ref, root, []int{i}}, ft}
		}
		return TV{e.st.loadObj(ref, root, []int{i}), ft}
	}
	s, ok := under(tv.T).(*types.Struct)
	if !ok {
		sfail("field of non-struct %v", tv.T)
	}
	ft := s.Field(i).Type()
	switch v := tv.V.(type) {
	case *StructVal:
		return TV{v.F[i], ft}
	case *PRef:
		path := append(append([]int(nil), v.Path...), i)
		if isStruct(ft) {
			return TV{&PRef{v.Ref, v.Root, path}, ft}
		}
		return TV{e.st.loadObj(v.Ref, v.Root, path), ft}
	case *PLocal:
		return TV{getPath(e.st.load(v, tv.T), []int{i}), ft}
	}
	sfail("field select on %T", tv.V)
	return TV{}
}

func (e *Env) index(tv TV, idx Expr) TV {
	if tv.T == nil {
		if t, ok := tv.V.(Term); ok && strings.HasPrefix(t.Sort, "(Array") {
			return TV{Sel(t, e.intTerm(idx)), nil}
		}
		sfail("index on untyped value")
	}
	if kt, vt, ok := mapKV(tv.T); ok {
		m := e.toTerm(tv)
		k := e.intTerm(idx)
		v := Sel(e.st.mapVal(m, kt, vt), k)
		e.st.assumeLoaded(v, vt)
		return TV{v, vt}
	}
	if st, ok := under(tv.T).(*types.Slice); ok {
		s := e.toTerm(tv)
		i := e.intTerm(idx)
		p := &PElem{Arr: slArr(s), Idx: e.st.slIx(s, i), Elem: st.Elem()}
		return TV{e.st.loadElem(p), st.Elem()}
	}
	// raw SMT array (ghost)
	if t, ok := tv.V.(Term); ok && strings.HasPrefix(t.Sort, "(Array") {
		return TV{Sel(t, e.intTerm(idx)), nil}
	}
	sfail("index on %v", tv.T)
	return TV{}
}

func (e *Env) bin(x *EBin) TV {
	boolT := types.Typ[types.Bool]
	switch x.Op {
	case "&&":
		return TV{And(e.boolTerm(x.X), e.boolTerm(x.Y)), boolT}
	case "||":
		return TV{Or(e.boolTerm(x.X), e.boolTerm(x.Y)), boolT}
	case "==>":
		return TV{Imp(e.flip().boolTerm(x.X), e.boolTerm(x.Y)), boolT}
	case "<==>":
		n := e.neutral()
		return TV{Eq(n.boolTerm(x.X), n.boolTerm(x.Y)), boolT}
	case "==", "!=":
		n := e.neutral()
		a, b := n.eval(x.X), n.eval(x.Y)
		eq := e.equal(a, b)
		if x.Op == "!=" {
			eq = Not(eq)
		}
		return TV{eq, boolT}
	}
	a, b := e.eval(x.X), e.eval(x.Y)
	at, bt := e.toTerm(a), e.toTerm(b)
	if a.T != nil && isFloat(a.T) || b.T != nil && isFloat(b.T) {
		switch x.Op {
		case "+":
			return TV{UF(SI, "f64.add", at, bt), a.T}
		case "<":
			return TV{UF(SB, "f64.lt", at, bt), boolT}
		}
		sfail("float operator %s", x.Op)
	}
	switch x.Op {
	case "<":
		return TV{Lt(at, bt), boolT}
	case "<=":
		return TV{Le(at, bt), boolT}
	case ">":
		return TV{Gt(at, bt), boolT}
	case ">=":
		return TV{Ge(at, bt), boolT}
	case "+":
		if a.T != nil && isString(a.T) {
			return TV{e.x.eng.strConcat(e.x, at, bt), a.T}
		}
		return TV{Add(at, bt), nil}
	case "-":
		return TV{Sub(at, bt), nil}
	case "*":
		return TV{Mul(at, bt), nil}
	case "/":
		return TV{tdiv(at, bt), nil}
	case "%":
		return TV{Sub(at, Mul(bt, tdiv(at, bt))), nil}
	}
	sfail("operator %s", x.Op)
	return TV{}
}

// materialize turns a lazy struct reference into a struct value.
func (e *Env) materialize(tv TV) Val {
	if p, ok := tv.V.(*PRef); ok && isStruct(tv.T) {
		return e.st.loadObj(p.Ref, p.Root, p.Path)
	}
	return tv.V
}

func (e *Env) equal(a, b TV) Term {
	as, aok := a.V.(*StructVal)
	bs, bok := b.V.(*StructVal)
	if aok && bok {
		return structEq(e.st, as, bs)
	}
	if aok != bok {
		// materialise lazy struct refs
		if p, ok := a.V.(*PRef); ok {
			return e.equal(TV{e.st.loadObj(p.Ref, p.Root, p.Path), a.T}, b)
		}
		if p, ok := b.V.(*PRef); ok {
			return e.equal(a, TV{e.st.loadObj(p.Ref, p.Root, p.Path), b.T})
		}
		sfail("comparing struct with non-struct")
	}
	return Eq(e.toTerm(a), e.toTerm(b))
}

func (e *Env) quant(q *EQuant) TV {
	c := e.child()
	var vars []Term
	var ranges []Term
	for _, qv := range q.Vars {
		t := e.resolveType(qv.Type)
		e.x.counter++
		s := SI
		if t != nil {
			s = sortOf(t)
		}
		v := Term{fmt.Sprintf("q.%s!%d", qv.Name, e.x.counter), s}
		vars = append(vars, v)
		if t != nil {
			if lo, hi, ok := intRange(t); ok {
				ranges = append(ranges, And(Le(Term{lo, SI}, v), Le(v, Term{hi, SI})))
			}
		}
		c.vars[qv.Name] = TV{v, t}
	}
	// capture side assumptions produced while evaluating the body
	savedPC := e.st.pc
	e.st.pc = nil
	body := c.boolTerm(q.Body)
	side := e.st.pc
	e.st.pc = savedPC
	// side: type invariants of the values read in the body; true for every
	// instance. As a goal they may be used, as an assumption they are restated.
	rng := And(ranges...)
	sd := And(side...)
	boolT := types.Typ[types.Bool]
	if q.All {
		switch {
		case e.pol > 0:
			return TV{Forall(vars, Imp(And(rng, sd), body)), boolT}
		case e.pol < 0:
			return TV{Forall(vars, And(sd, Imp(rng, body))), boolT}
		}
		return TV{Forall(vars, Imp(rng, body)), boolT}
	}
	if e.pol < 0 {
		return TV{Exists(vars, And(rng, sd, body)), boolT}
	}
	return TV{Exists(vars, And(rng, body)), boolT}
}

func (e *Env) call(c *ECall) TV {
	boolT := types.Typ[types.Bool]
	st := e.st
	switch c.Fn {
	case "old":
		h := e.old
		return e.withHeap(h, func() TV {
			sub := *e
			sub.old = h
			return sub.eval(c.Args[0])
		})
	case "at":
		label := exprKey(c.Args[0])
		h, ok := e.snaps[label]
		if !ok && e.fr != nil && e.fr.snaps != nil {
			h, ok = e.fr.snaps[label]
		}
		if !ok {
			// the labelled point was not reached on this path: an arbitrary state
			h = map[string]Term{}
			for name, t := range e.st.heap {
				h[name] = e.x.freshNamed(name+"!"+label, t.Sort)
			}
		}
		return e.withHeap(h, func() TV { return e.eval(c.Args[1]) })
	case "ite":
		cond := e.neutral().boolTerm(c.Args[0])
		a, b := e.eval(c.Args[1]), e.eval(c.Args[2])
		t := a.T
		if t == nil {
			t = b.T
		}
		return TV{Ite(cond, e.toTerm(a), e.toTerm(b)), t}
	case "len":
		tv := e.eval(c.Args[0])
		if kt, vt, ok := mapKV(tv.T); ok {
			return TV{st.mapCard(e.toTerm(tv), kt, vt), nil}
		}
		if tv.T != nil && isString(tv.T) {
			return TV{UF(SI, "str.len", e.toTerm(tv)), nil}
		}
		return TV{slLen(e.toTerm(tv)), nil}
	case "has":
		m := e.eval(c.Args[0])
		kt, vt, ok := mapKV(m.T)
		if !ok {
			sfail("has() on non-map %v", m.T)
		}
		mt := e.toTerm(m)
		// a nil map contains nothing
		return TV{And(Neq(mt, TInt(0)), Sel(st.mapHas(mt, kt, vt), e.intTerm(c.Args[1]))), boolT}
	case "get":
		return e.index(e.eval(c.Args[0]), c.Args[1])
	case "unchanged":
		m := e.eval(c.Args[0])
		return TV{e.mapRel(m, nil, nil), boolT}
	case "stored":
		m := e.eval(c.Args[0])
		k := e.intTerm(c.Args[1])
		v := e.toTerm(e.eval(c.Args[2]))
		return TV{e.mapRel(m, &k, &v), boolT}
	case "samecontent":
		// samecontent(m1, m2): current contents equal
		a, b := e.eval(c.Args[0]), e.eval(c.Args[1])
		kt, vt, ok := mapKV(a.T)
		if !ok {
			sfail("samecontent on non-map")
		}
		ma, mb := e.toTerm(a), e.toTerm(b)
		return TV{And(Eq(st.mapHas(ma, kt, vt), st.mapHas(mb, kt, vt)), Eq(st.mapVal(ma, kt, vt), st.mapVal(mb, kt, vt))), boolT}
	case "calls":
		key := exprKey(c.Args[0])
		now := st.comp("N!"+sanitize(key), SI)
		old := e.oldComp("N!"+sanitize(key), SI)
		return TV{Sub(now, old), nil}
	case "ts":
		// ts(K, i): global sequence number of the i-th call of K since the old state
		key := exprKey(c.Args[0])
		base := e.oldComp("N!"+sanitize(key), SI)
		arr := st.comp("TS!"+sanitize(key), ArrSort(SI, SI))
		return TV{Sel(arr, Add(base, e.intTerm(c.Args[1]))), nil}
	case "countat":
		k2, k1 := exprKey(c.Args[0]), exprKey(c.Args[1])
		arr := st.comp("CS!"+sanitize(k1)+"!"+sanitize(k2), ArrSort(SI, SI))
		return TV{Sel(arr, e.intTerm(c.Args[2])), nil}
	case "tsat":
		// tsat(K, i): global sequence number of the call with absolute log index i
		key := exprKey(c.Args[0])
		arr := st.comp("TS!"+sanitize(key), ArrSort(SI, SI))
		return TV{Sel(arr, e.intTerm(c.Args[1])), nil}
	case "atomicval":
		p := e.eval(c.Args[0])
		pr, ok := p.V.(*PRef)
		if !ok {
			if t, isTerm := p.V.(Term); isTerm {
				// a pointer to an atomic value (a *atomic.Uint32 field): the object itself is the key
				return TV{Sel(st.comp("AT!", ArrSort(SI, SI)), t), nil}
			}
			sfail("atomicval() needs a struct field or a pointer to an atomic value")
		}
		comp := st.comp("AT!"+typeName(pr.Root)+"!"+fieldNameAt(pr.Root, pr.Path), ArrSort(SI, SI))
		return TV{Sel(comp, pr.Ref), nil}
	case "held":
		p := e.eval(c.Args[0])
		pr, ok := p.V.(*PRef)
		if !ok {
			sfail("held() needs a struct field")
		}
		comp := st.comp("MU!"+typeName(pr.Root)+"!"+fieldNameAt(pr.Root, pr.Path), ArrSort(SI, SB))
		return TV{Sel(comp, pr.Ref), types.Typ[types.Bool]}
	case "oncedone":
		// oncedone(x.once): the sync.Once field has already run its function
		p := e.eval(c.Args[0])
		pr, ok := p.V.(*PRef)
		if !ok {
			sfail("oncedone() needs a struct field")
		}
		comp := st.comp("ONCE!"+typeName(pr.Root)+"!"+fieldNameAt(pr.Root, pr.Path), ArrSort(SI, SB))
		return TV{Sel(comp, pr.Ref), types.Typ[types.Bool]}
	case "dcalls":
		// calls made directly by this function (not through callees or the environment)
		key := exprKey(c.Args[0])
		now := st.comp("D!"+sanitize(key), SI)
		old := e.oldComp("D!"+sanitize(key), SI)
		return TV{Sub(now, old), nil}
	case "ncalls":
		key := exprKey(c.Args[0])
		return TV{st.comp("N!"+sanitize(key), SI), nil}
	case "arg":
		return e.callArg(c, false)
	case "darg":
		// darg(K, i, name): argument of the i-th call of K made directly by this function
		return e.callArgDirect(c)
	case "dret":
		key := exprKey(c.Args[0])
		i := e.intTerm(c.Args[1])
		j := 0
		if len(c.Args) > 2 {
			j = int(c.Args[2].(*EInt).V.Int64())
		}
		rt := e.x.eng.resultTypes(key)
		if rt == nil || j >= len(rt) || sortOf(rt[j]) == "" {
			// no call of K anywhere any more: an arbitrary value, so that a clause that needs the result cannot be proved
			return TV{e.st.fresh("noresult."+sanitize(key), SI), nil}
		}
		base := e.oldComp("D!"+sanitize(key), SI)
		arr := st.comp(fmt.Sprintf("DR!%s!%d", sanitize(key), j), ArrSort(SI, sortOf(rt[j])))
		return TV{Sel(arr, Add(base, i)), rt[j]}
	case "lastcall":
		// lastcall(K, name, v): absolute log index of the latest call of K whose argument `name` was v
		key := exprKey(c.Args[0])
		sig := e.x.eng.callSigs[key]
		if sig == nil {
			sfail("no call signature known for %q", key)
		}
		for j, n := range sig.names {
			if n == exprKey(c.Args[1]) {
				arr := st.comp(fmt.Sprintf("L!%s!%d", sanitize(key), j), ArrSort(SI, SI))
				return TV{Sel(arr, e.intTerm(c.Args[2])), nil}
			}
		}
		sfail("no argument %s in %q", exprKey(c.Args[1]), key)
	case "argat":
		// argat(K, i, name): argument of the call with absolute log index i
		return e.callArg(c, true)
	case "ret", "retat":
		// ret(K, i [, j]): j-th result of the i-th call of K since the old state (retat: absolute log index)
		key := exprKey(c.Args[0])
		i := e.intTerm(c.Args[1])
		j := 0
		if len(c.Args) > 2 {
			j = int(c.Args[2].(*EInt).V.Int64())
		}
		rt := e.x.eng.resultTypes(key)
		if rt == nil || j >= len(rt) {
			return TV{e.st.fresh("noresult."+sanitize(key), SI), nil}
		}
		s := sortOf(rt[j])
		if s == "" {
			sfail("composite result of %q is not logged", key)
		}
		base := e.oldComp("N!"+sanitize(key), SI)
		arr := st.comp(fmt.Sprintf("R!%s!%d", sanitize(key), j), ArrSort(SI, s))
		if c.Fn == "retat" {
			return TV{Sel(arr, i), rt[j]}
		}
		return TV{Sel(arr, Add(base, i)), rt[j]}
	case "fresh":
		p := e.toTerm(e.eval(c.Args[0]))
		return TV{Gt(p, e.oldWM), boolT}
	case "allocated":
		// allocated(p): p is an object that exists in the current state (not one a later allocation could return)
		p := e.toTerm(e.eval(c.Args[0]))
		return TV{And(Gt(p, TInt(0)), Le(p, st.wmNow())), boolT}
	case "typeis":
		v := e.toTerm(e.eval(c.Args[0]))
		t := e.resolveType(exprKey(c.Args[1]))
		return TV{And(Neq(v, TInt(0)), Eq(ifTag(v), e.x.eng.typeID(t))), boolT}
	case "ifaceval":
		// the value boxed in an interface (untyped): for func values passed as interface{}
		return TV{ifRef(e.toTerm(e.eval(c.Args[0]))), nil}
	case "as":
		v := e.toTerm(e.eval(c.Args[0]))
		t := e.resolveType(exprKey(c.Args[1]))
		return TV{e.x.unboxIface(st, v, t), t}
	case "cast":
		// cast(term, "type"): the term seen as a value of the named type (no run-time check implied)
		return TV{e.toTerm(e.eval(c.Args[0])), e.resolveType(exprKey(c.Args[1]))}
	case "isclosure":
		v := e.toTerm(e.eval(c.Args[0]))
		fn := e.x.eng.funcByKey(e.qualKey(exprKey(c.Args[1])))
		if fn == nil {
			sfail("unknown function %s", exprKey(c.Args[1]))
		}
		// a function literal that captures nothing is represented by its function id itself
		return TV{Or(Eq(cloFn(v), e.x.funcID(fn)), Eq(v, e.x.funcID(fn))), boolT}
	case "captured":
		// captured(v, fnkey, name): current value of the variable captured by closure v
		v := e.toTerm(e.eval(c.Args[0]))
		fn := e.x.eng.funcByKey(e.qualKey(exprKey(c.Args[1])))
		if fn == nil {
			sfail("unknown function %s", exprKey(c.Args[1]))
		}
		name := exprKey(c.Args[2])
		// the closure's contract may name its captured variables by position
		if cc := e.x.eng.contractFor(fn); cc != nil && len(cc.FreeVars) == len(fn.FreeVars) {
			for i, n := range cc.FreeVars {
				if n == name {
					name = fn.FreeVars[i].Name()
					break
				}
			}
		}
		for _, fv := range fn.FreeVars {
			if fv.Name() == name {
				comp := st.comp(fmt.Sprintf("B!%s!%s", sanitize(funcKey(fn)), name), ArrSort(SI, sortOf(fv.Type())))
				b := Sel(comp, v)
				if strings.HasSuffix(funcKey(fn), "$bound") {
					return TV{b, fv.Type()}
				}
				pt := fv.Type().(*types.Pointer).Elem()
				st.assumeLoaded(b, fv.Type()) // the captured variable's cell is an existing object, like any pointer read from memory
				return TV{st.load(b, pt), pt}
			}
		}
		// the closure does not capture such a variable: an arbitrary value, so that a clause
		// demanding a particular captured value cannot be proved
		return TV{e.st.fresh("nocapture."+name, SI), nil}
	case "fvcell":
		// fvcell("x"): the address of the variable x captured by the closure under verification
		if e.fr == nil {
			sfail("fvcell outside a closure")
		}
		name := exprKey(c.Args[0])
		if cc := e.x.eng.contractFor(e.fr.fn); cc != nil && len(cc.FreeVars) == len(e.fr.fn.FreeVars) {
			for i, n := range cc.FreeVars {
				if n == name {
					return TV{e.fr.freeCells[i], e.fr.fn.FreeVars[i].Type()}
				}
			}
		}
		for i, fv := range e.fr.fn.FreeVars {
			if fv.Name() == name {
				return TV{e.fr.freeCells[i], fv.Type()}
			}
		}
		sfail("no captured variable %s", name)
	case "sends":
		ch := e.toTerm(e.eval(c.Args[0]))
		now := Sel(st.comp("CH!own", ArrSort(SI, SI)), ch)
		old := Sel(e.oldComp("CH!own", ArrSort(SI, SI)), ch)
		return TV{Sub(now, old), nil}
	case "chlen":
		ch := e.toTerm(e.eval(c.Args[0]))
		return TV{Sub(Sel(st.comp("CH!sent", ArrSort(SI, SI)), ch), Sel(st.comp("CH!rcvd", ArrSort(SI, SI)), ch)), nil}
	case "chcap":
		ch := e.toTerm(e.eval(c.Args[0]))
		return TV{Sel(st.comp("CH!cap", ArrSort(SI, SI)), ch), nil}
	case "chclosed":
		ch := e.toTerm(e.eval(c.Args[0]))
		return TV{Sel(st.comp("CH!closed", ArrSort(SI, SB)), ch), boolT}
	case "chbuf":
		// chbuf(ch, i): i-th value ever sent on ch (0-based, absolute)
		chv := e.eval(c.Args[0])
		ch := e.toTerm(chv)
		et := under(chv.T).(*types.Chan).Elem()
		s := sortOf(et)
		if s == "" {
			s = SI
		}
		buf := Sel(st.comp("CH!buf!"+s, ArrSort(SI, ArrSort(SI, s))), ch)
		return TV{Sel(buf, e.intTerm(c.Args[1])), et}
	case "chsent":
		ch := e.toTerm(e.eval(c.Args[0]))
		return TV{Sel(st.comp("CH!sent", ArrSort(SI, SI)), ch), nil}
	case "chrecvd":
		ch := e.toTerm(e.eval(c.Args[0]))
		return TV{Sel(st.comp("CH!rcvd", ArrSort(SI, SI)), ch), nil}
	case "iserr":
		a := e.toTerm(e.eval(c.Args[0]))
		b := e.toTerm(e.eval(c.Args[1]))
		return TV{UF(SB, "err.is", a, b), boolT}
	case "hasprefix":
		a := e.toTerm(e.eval(c.Args[0]))
		b := e.toTerm(e.eval(c.Args[1]))
		return TV{e.x.eng.strHasPrefix(e.x, a, b), boolT}
	case "contains":
		a := e.toTerm(e.eval(c.Args[0]))
		b := e.toTerm(e.eval(c.Args[1]))
		return TV{UF(SB, "str.contains", a, b), boolT}
	case "lastindex", "strindex":
		uf := map[string]string{"lastindex": "str.lastindex", "strindex": "str.index"}[c.Fn]
		return TV{UF(SI, uf, e.toTerm(e.eval(c.Args[0])), e.toTerm(e.eval(c.Args[1]))), types.Typ[types.Int]}
	case "substr":
		return TV{UF(SI, "str.sub", e.toTerm(e.eval(c.Args[0])), e.intTerm(c.Args[1]), e.intTerm(c.Args[2])), types.Typ[types.String]}
	case "trimspace", "toupper", "tolower":
		return TV{UF(SI, "str."+c.Fn, e.toTerm(e.eval(c.Args[0]))), types.Typ[types.String]}
	case "replaceall":
		return TV{UF(SI, "str.replaceall", e.toTerm(e.eval(c.Args[0])), e.toTerm(e.eval(c.Args[1])), e.toTerm(e.eval(c.Args[2]))), types.Typ[types.String]}
	case "parsefloat":
		return TV{UF(SI, "parsefloat.val", e.toTerm(e.eval(c.Args[0]))), types.Typ[types.Float64]}
	case "parsefloatok":
		return TV{Eq(UF(SI, "parsefloat.err", e.toTerm(e.eval(c.Args[0]))), TInt(0)), boolT}
	case "parseuint":
		return TV{UF(SI, "parseuint.val", e.toTerm(e.eval(c.Args[0])), e.intTerm(c.Args[1]), e.intTerm(c.Args[2])), types.Typ[types.Uint64]}
	case "parseuintok":
		return TV{Eq(UF(SI, "parseuint.err", e.toTerm(e.eval(c.Args[0])), e.intTerm(c.Args[1]), e.intTerm(c.Args[2])), TInt(0)), boolT}
	case "parseduration":
		return TV{UF(SI, "parseduration.val", e.toTerm(e.eval(c.Args[0]))), types.Typ[types.Int64]}
	case "parsedurationok":
		return TV{Eq(UF(SI, "parseduration.err", e.toTerm(e.eval(c.Args[0]))), TInt(0)), boolT}
	case "parseint":
		return TV{UF(SI, "parseint.val", e.toTerm(e.eval(c.Args[0])), e.intTerm(c.Args[1]), e.intTerm(c.Args[2])), types.Typ[types.Int64]}
	case "parseintok":
		return TV{Eq(UF(SI, "parseint.err", e.toTerm(e.eval(c.Args[0])), e.intTerm(c.Args[1]), e.intTerm(c.Args[2])), TInt(0)), boolT}
	case "fmul":
		return TV{UF(SI, "f64.mul", e.toTerm(e.eval(c.Args[0])), e.toTerm(e.eval(c.Args[1]))), types.Typ[types.Float64]}
	case "ftoint":
		return TV{UF(SI, "f64.toint", e.toTerm(e.eval(c.Args[0]))), types.Typ[types.Int]}
	case "parsebool":
		return TV{UF(SB, "parsebool.val", e.toTerm(e.eval(c.Args[0]))), boolT}
	case "parseboolok":
		return TV{Eq(UF(SI, "parsebool.err", e.toTerm(e.eval(c.Args[0]))), TInt(0)), boolT}
	case "atoi":
		return TV{UF(SI, "atoi.val", e.toTerm(e.eval(c.Args[0]))), types.Typ[types.Int]}
	case "atoiok":
		return TV{Eq(UF(SI, "atoi.err", e.toTerm(e.eval(c.Args[0]))), TInt(0)), boolT}
	case "splitlen":
		return TV{UF(SI, "str.split.len", e.toTerm(e.eval(c.Args[0])), e.toTerm(e.eval(c.Args[1]))), types.Typ[types.Int]}
	case "splitat":
		return TV{Sel(UF(ArrSort(SI, SI), "str.split.arr", e.toTerm(e.eval(c.Args[0])), e.toTerm(e.eval(c.Args[1]))), e.intTerm(c.Args[2])), types.Typ[types.String]}
	case "itoa":
		return TV{UF(SI, "str.itoa", e.intTerm(c.Args[0])), types.Typ[types.String]}
	case "bytes":
		return TV{UF(SI, "bytes.ofstr", e.toTerm(e.eval(c.Args[0]))), nil}
	case "str":
		return TV{UF(SI, "str.ofbytes", e.toTerm(e.eval(c.Args[0]))), types.Typ[types.String]}
	case "f64":
		return TV{UF(SI, "f64.of", e.intTerm(c.Args[0])), types.Typ[types.Float64]}
	case "fadd":
		return TV{UF(SI, "f64.add", e.toTerm(e.eval(c.Args[0])), e.toTerm(e.eval(c.Args[1]))), types.Typ[types.Float64]}
	case "flit":
		if n, ok := c.Args[0].(*EInt); ok {
			return TV{e.x.floatLit(n.V.String()), types.Typ[types.Float64]}
		}
		return TV{e.x.floatLit(exprKey(c.Args[0])), types.Typ[types.Float64]}
	case "timeunix":
		// the value time.Unix(sec, nsec) of the time model
		tt := e.x.eng.lookupType(e.pkg, "time", "Time")
		if tt == nil {
			sfail("package time is not loaded")
		}
		sv := e.st.freshVal("time.unix", tt).(*StructVal)
		fillFromFn(e.st, sv, "time.unix", []Term{e.intTerm(c.Args[0]), e.intTerm(c.Args[1])})
		return TV{sv, tt}
	case "timenonzero":
		a := flatten(e.st, e.materialize(e.eval(c.Args[0])))
		return TV{UF(SB, "time.nonzero", a...), boolT}
	case "hasdeadline":
		return TV{UF(SB, "ctx.hasdeadline", e.toTerm(e.eval(c.Args[0]))), boolT}
	case "timeafter":
		a := flatten(e.st, e.materialize(e.eval(c.Args[0])))
		b := flatten(e.st, e.materialize(e.eval(c.Args[1])))
		return TV{UF(SB, "time.after", append(a, b...)...), boolT}
	case "distinct":
		var ts []Term
		for _, a := range c.Args {
			ts = append(ts, e.toTerm(e.eval(a)))
		}
		if len(ts) < 2 {
			return TV{TTrue, boolT}
		}
		return TV{app(SB, "distinct", ts...), boolT}
	case "min":
		a, b := e.intTerm(c.Args[0]), e.intTerm(c.Args[1])
		return TV{Ite(Le(a, b), a, b), nil}
	case "max":
		a, b := e.intTerm(c.Args[0]), e.intTerm(c.Args[1])
		return TV{Ite(Ge(a, b), a, b), nil}
	case "sliceeq":
		a, b := e.toTerm(e.eval(c.Args[0])), e.toTerm(e.eval(c.Args[1]))
		return TV{And(Eq(slArr(a), slArr(b)), Eq(slOff(a), slOff(b)), Eq(slLen(a), slLen(b))), boolT}
	case "select":
		a := e.toTerm(e.eval(c.Args[0]))
		return TV{Sel(a, e.intTerm(c.Args[1])), nil}
	case "store":
		a := e.toTerm(e.eval(c.Args[0]))
		return TV{Sto(a, e.intTerm(c.Args[1]), e.toTerm(e.eval(c.Args[2]))), nil}
	case "uninterp":
		// uninterp("name", args...) : Int-valued uninterpreted function
		name := exprKey(c.Args[0])
		var args []Term
		for _, a := range c.Args[1:] {
			args = append(args, e.toTerm(e.eval(a)))
		}
		return TV{UF(SI, name, args...), nil}
	case "upred":
		name := exprKey(c.Args[0])
		var args []Term
		sig := "fun:("
		for _, a := range c.Args[1:] {
			t := e.toTerm(e.eval(a))
			args = append(args, t)
			sig += t.Sort + " "
		}
		e.x.decls[name] = strings.TrimSpace(sig) + ") Bool"
		return TV{UF(SB, name, args...), boolT}
	case "ifref":
		return TV{ifRef(e.toTerm(e.eval(c.Args[0]))), nil}
	case "boundrecv":
		// receiver bound in a method value (closure over $bound)
		v := e.toTerm(e.eval(c.Args[0]))
		fn := e.x.eng.funcByKey(e.qualKey(exprKey(c.Args[1])) + "$bound")
		if fn == nil {
			// the code creates no such method value any more
			return TV{e.st.fresh("nobound", SI), nil}
		}
		fv := fn.FreeVars[0]
		comp := st.comp(fmt.Sprintf("B!%s!%s", sanitize(funcKey(fn)), fv.Name()), ArrSort(SI, sortOf(fv.Type())))
		return TV{Sel(comp, v), fv.Type()}
	case "isbound":
		v := e.toTerm(e.eval(c.Args[0]))
		fn := e.x.eng.funcByKey(e.qualKey(exprKey(c.Args[1])) + "$bound")
		if fn == nil {
			return TV{TFalse, boolT} // no such method value exists in the code
		}
		return TV{Eq(cloFn(v), e.x.funcID(fn)), boolT}
	}
	if pd, ok := e.pures[c.Fn]; ok {
		if len(pd.Params) != len(c.Args) {
			sfail("pure %s expects %d arguments", c.Fn, len(pd.Params))
		}
		sub := e.child()
		sub.lets = map[string]Expr{}
		for k, v := range e.lets {
			sub.lets[k] = v
		}
		for i, p := range pd.Params {
			tv := e.eval(c.Args[i])
			if tv.T == nil && p.Type != "int" && p.Type != "mathint" {
				tv.T = e.resolveType(p.Type)
			}
			sub.vars[p.Name] = tv
			delete(sub.lets, p.Name)
		}
		if !pd.Opaque {
			return sub.eval(pd.Body)
		}
		// opaque: an uninterpreted function; the definition is added for this
		// instance only where the contract reveals it
		var args []Term
		for _, p := range pd.Params {
			args = append(args, e.toTerm(sub.vars[p.Name]))
		}
		if e.reveal[c.Fn] {
			return sub.eval(pd.Body)
		}
		rs := SI
		if pd.Bool {
			rs = SB
		}
		return TV{UF(rs, "pure."+c.Fn, args...), nil}
	}
	sfail("unknown function %s in contract", c.Fn)
	return TV{}
}

// qualKey turns "(*stream).listen" into "stream.(*stream).listen" using the
// contract's package when no package is given.
func (e *Env) qualKey(k string) string {
	if strings.HasPrefix(k, "(") || !strings.Contains(k, ".") {
		if e.pkg != nil {
			return e.pkg.Name() + "." + k
		}
	}
	return k
}

func (e *Env) oldComp(name, sort string) Term {
	if t, ok := e.old[name]; ok {
		return t
	}
	return e.x.declare(name+"@0", sort)
}

// mapRel: relation between old and current content of map m. With k,v: the
// current content is the old one updated at k; without: unchanged.
func (e *Env) mapRel(m TV, k, v *Term) Term {
	kt, vt, ok := mapKV(m.T)
	if !ok {
		sfail("not a map: %v", m.T)
	}
	ref := e.toTerm(m)
	hn, vn, s := mapNames(kt, vt)
	hNow := Sel(e.st.comp(hn, hasSort), ref)
	hOld := Sel(e.oldComp(hn, hasSort), ref)
	vNow := Sel(e.st.comp(vn, ArrSort(SI, ArrSort(SI, s))), ref)
	vOld := Sel(e.oldComp(vn, ArrSort(SI, ArrSort(SI, s))), ref)
	if k == nil {
		return And(Eq(hNow, hOld), Eq(vNow, vOld))
	}
	return And(Eq(hNow, Sto(hOld, *k, TTrue)), Eq(vNow, Sto(vOld, *k, *v)))
}

func (e *Env) callArgDirect(c *ECall) TV {
	key := exprKey(c.Args[0])
	i := e.intTerm(c.Args[1])
	sig := e.x.eng.callSigs[key]
	if sig == nil {
		return TV{e.st.fresh("nocall."+sanitize(key), SI), nil} // see callArg
	}
	j := -1
	switch a := c.Args[2].(type) {
	case *EInt:
		j = int(a.V.Int64())
	case *EIdent:
		for k, n := range sig.names {
			if n == a.Name {
				j = k
			}
		}
	}
	if j < 0 || j >= len(sig.types) {
		sfail("bad argument selector for %q", key)
	}
	t := sig.types[j]
	s := sortOf(t)
	if s == "" {
		s = SI
	}
	base := e.oldComp("D!"+sanitize(key), SI)
	arr := e.st.comp(fmt.Sprintf("DA!%s!%d", sanitize(key), j), ArrSort(SI, s))
	v := Sel(arr, Add(base, i))
	if isStruct(t) {
		return TV{&PRef{Ref: v, Root: t}, t}
	}
	return TV{v, t}
}

func (e *Env) callArg(c *ECall, abs bool) TV {
	key := exprKey(c.Args[0])
	i := e.intTerm(c.Args[1])
	sig := e.x.eng.callSigs[key]
	if sig == nil {
		// the code makes no such call any more: an arbitrary value, so that a clause about the
		// call's arguments cannot be proved (instead of the function becoming undecided)
		return TV{e.st.fresh("nocall."+sanitize(key), SI), nil}
	}
	j := -1
	switch a := c.Args[2].(type) {
	case *EInt:
		j = int(a.V.Int64())
	case *EIdent:
		for k, n := range sig.names {
			if n == a.Name {
				j = k
			}
		}
	}
	if j < 0 || j >= len(sig.types) {
		sfail("bad argument selector for %q", key)
	}
	t := sig.types[j]
	s := sortOf(t)
	if s == "" {
		s = SI // boxed struct
	}
	base := e.oldComp("N!"+sanitize(key), SI)
	arr := e.st.comp(fmt.Sprintf("A!%s!%d", sanitize(key), j), ArrSort(SI, s))
	idx := Add(base, i)
	if abs {
		idx = i
	}
	v := Sel(arr, idx)
	if isStruct(t) {
		return TV{&PRef{Ref: v, Root: t}, t}
	}
	return TV{v, t}
}

// ---------- clause evaluation helpers on Exec ----------

func (x *Exec) envFor(st *State, fr *Frame, c *Contract) *Env {
	e := &Env{x: x, st: st, vars: map[string]TV{}, lets: map[string]Expr{}, fr: fr, pures: x.eng.pures}
	e.old = x.entryHeap
	e.oldWM = x.entryWM
	if fr != nil && fr.fn.Pkg != nil {
		e.pkg = fr.fn.Pkg.Pkg
	} else if fr != nil && fr.fn.Parent() != nil {
		p := fr.fn
		for p.Parent() != nil {
			p = p.Parent()
		}
		if p.Pkg != nil {
			e.pkg = p.Pkg.Pkg
		}
	}
	if c != nil {
		for _, l := range c.Lets {
			e.lets[l.Name] = l.E
		}
		e.reveal = map[string]bool{}
		for _, r := range c.Reveal {
			e.reveal[r] = true
		}
		if e.pkg == nil {
			e.pkg = x.eng.typesPkg(c.Pkg)
		}
	}
	return e
}

func (x *Exec) evalClauseBool(st *State, fr *Frame, cl *Clause, res []TV, pol int) Term {
	c := x.eng.contractFor(fr.fn)
	e := x.envFor(st, fr, c)
	e.locals = cl.Kind == "invariant"
	e.result = res
	e.pol = pol
	if cl.Kind == "invariant" && len(fr.rangeIter) >= 1 {
		// the range statement started last is the one of the loop whose invariant this is
		var latest *rangeState
		for _, rs := range fr.rangeIter {
			if latest == nil || rs.seq > latest.seq {
				latest = rs
			}
		}
		e.vars["visited"] = TV{latest.visited, nil}
	}
	return x.safeBool(e, cl)
}

func (x *Exec) safeGoal(e *Env, cl *Clause) Term {
	c := *e
	c.pol = 1
	return x.safeBool(&c, cl)
}

func (x *Exec) safeAssume(e *Env, cl *Clause) Term {
	c := *e
	c.pol = -1
	return x.safeBool(&c, cl)
}

func (x *Exec) safeBool(e *Env, cl *Clause) (t Term) {
	defer func() {
		if r := recover(); r != nil {
			if se, ok := r.(specErr); ok {
				unsup("contract clause %q (line %d): %s", cl.Src, cl.Line, se.msg)
			}
			panic(r)
		}
	}()
	return e.boolTerm(cl.E)
}

// evalEntryBool evaluates a clause (panics/returns condition) in the entry state.
func (x *Exec) evalEntryBool(st *State, cl *Clause) Term {
	fr := st.frames[0]
	e := x.envFor(st, fr, fr.contract)
	var out Term
	e.withHeap(x.entryHeap, func() TV {
		out = x.safeBool(e, cl)
		return TV{}
	})
	return out
}

func clauseName(cl *Clause) string {
	return cl.Kind + "." + cl.Label
}
