package main

// Layer 2: lemma scripts over verified contracts.
//
//	lemma <name>
//	  props C04 C01
//	  var s *stream.stream
//	  assume <expr>
//	  snap <label>                  -- remember the heap; at(label, e) evaluates e there
//	  call [r =] <contract key>(args)  -- by contract: requires become obligations, modifies havoc'd, ensures assumed
//	  havoc <locations>
//	  assert <name> <expr>
//
// The only facts a lemma may use are its own assumes (hypotheses, environment
// contracts) and the pre/postconditions of contracts proved against the code.

import (
	"fmt"
	"go/types"
	"os"
	"strings"
)

type LemmaResult struct {
	Queries []*Query
	Trusted []string
	Steps   int
}

type lemmaStmt struct {
	kind string
	text string
	line int
}

type lemmaDef struct {
	name  string
	props []string
	stmts []lemmaStmt
}

func parseLemmaFile(path string) ([]*lemmaDef, error) {
	data, err := os.ReadFile(path)
	if err != nil {
		return nil, err
	}
	var out []*lemmaDef
	var cur *lemmaDef
	for i, raw := range strings.Split(string(data), "\n") {
		l := strings.TrimSpace(raw)
		if l == "" || strings.HasPrefix(l, "#") || strings.HasPrefix(l, "//") {
			continue
		}
		w := firstWord(l)
		rest := strings.TrimSpace(strings.TrimPrefix(l, w))
		switch w {
		case "lemma":
			cur = &lemmaDef{name: rest}
			out = append(out, cur)
		case "props":
			if cur == nil {
				return nil, fmt.Errorf("%s:%d: props outside lemma", path, i+1)
			}
			cur.props = strings.FieldsFunc(rest, func(r rune) bool { return r == ' ' || r == ',' })
		case "var", "assume", "snap", "call", "havoc", "assert", "let", "note", "reveal":
			if cur == nil {
				return nil, fmt.Errorf("%s:%d: statement outside lemma", path, i+1)
			}
			cur.stmts = append(cur.stmts, lemmaStmt{w, stripComment(rest), i + 1})
		default:
			// continuation of the previous statement
			if cur == nil || len(cur.stmts) == 0 {
				return nil, fmt.Errorf("%s:%d: cannot parse %q", path, i+1, l)
			}
			cur.stmts[len(cur.stmts)-1].text += " " + stripComment(l)
		}
	}
	return out, nil
}

func (eng *Engine) RunLemmaFile(path, prop string) (*LemmaResult, error) {
	defs, err := parseLemmaFile(path)
	if err != nil {
		return nil, err
	}
	res := &LemmaResult{}
	base := strings.TrimSuffix(path[strings.LastIndex(path, "/")+1:], ".lemma")
	for _, d := range defs {
		if prop != "" && len(d.props) > 0 && !hasProp(d.props, prop) {
			continue
		}
		qs, trusted, steps, err := eng.runLemma(base, d)
		if err != nil {
			return nil, fmt.Errorf("lemma %s: %v", d.name, err)
		}
		res.Queries = append(res.Queries, qs...)
		res.Trusted = append(res.Trusted, trusted...)
		res.Steps += steps
	}
	return res, nil
}

func (eng *Engine) runLemma(file string, d *lemmaDef) (qs []*Query, trusted []string, steps int, err error) {
	x := &Exec{eng: eng, decls: map[string]string{}, maxPaths: 64, oblPrefix: "lemma." + file + "." + d.name,
		inlined: map[string]bool{}, reached: map[string]bool{}, lemmaMode: true}
	curCall := "" // the contract being applied when an error occurs
	defer func() {
		qs = x.queries
		trusted = setList(x.trusted)
		if r := recover(); r != nil {
			at := ""
			if curCall != "" {
				at = "call " + curCall + ": "
			}
			switch v := r.(type) {
			case unsupported:
				err = fmt.Errorf("%s%s", at, v.msg)
			case specErr:
				err = fmt.Errorf("%s%s", at, v.msg)
			default:
				panic(r)
			}
		}
	}()
	st := &State{x: x, heap: map[string]Term{}, cells: map[int]*cell{}}
	st.wm = x.declare("wm0", SI)
	st.assume(Ge(st.wm, TInt(0)))
	fr := &Frame{regs: nil, named: map[string]int{}, loopOn: map[int]*loopCtx{}}
	st.frames = []*Frame{fr}
	x.entryHeap = st.snapshot()
	x.entryWM = st.wmNow()
	env := &Env{x: x, st: st, vars: map[string]TV{}, lets: map[string]Expr{}, pures: eng.pures, old: x.entryHeap, oldWM: x.entryWM}
	// default package for name resolution: the stream package if loaded, else any repo package
	for _, pth := range []string{repoModule + "/stream", repoModule + "/couchbase", repoModule + "/models", repoModule + "/helpers", repoModule} {
		if p := eng.typesPkg(pth); p != nil {
			env.pkg = p
			break
		}
	}
	snaps := map[string]map[string]Term{}
	env.snaps = snaps
	for _, s := range d.stmts {
		fail := func(f string, a ...interface{}) {
			panic(specErr{fmt.Sprintf("line %d: %s", s.line, fmt.Sprintf(f, a...))})
		}
		switch s.kind {
		case "note":
		case "reveal":
			if env.reveal == nil {
				env.reveal = map[string]bool{}
			}
			for _, n := range strings.FieldsFunc(s.text, func(r rune) bool { return r == ' ' || r == ',' }) {
				env.reveal[n] = true
			}
		case "var":
			f := strings.Fields(s.text)
			if len(f) != 2 {
				fail("var needs name and type")
			}
			t := env.resolveType(f[1])
			if t == nil {
				env.vars[f[0]] = TV{st.fresh("v."+f[0], SI), nil}
			} else {
				env.vars[f[0]] = TV{st.freshVal("v."+f[0], t), t}
			}
		case "let":
			i := strings.Index(s.text, "=")
			if i < 0 {
				fail("let needs =")
			}
			e, perr := ParseExpr(s.text[i+1:])
			if perr != nil {
				fail("%v", perr)
			}
			env.lets[strings.TrimSpace(s.text[:i])] = e
		case "assume":
			e, perr := ParseExpr(s.text)
			if perr != nil {
				fail("%v", perr)
			}
			sub := *env
			sub.pol = -1
			st.assume(sub.boolTerm(e))
		case "snap":
			snaps[strings.TrimSpace(s.text)] = st.snapshot()
		case "havoc":
			cl := &Clause{Kind: "modifies", Src: s.text}
			for _, part := range splitTop(s.text, ',') {
				e, perr := ParseExpr(part)
				if perr != nil {
					fail("%v", perr)
				}
				cl.Locs = append(cl.Locs, e)
			}
			sub := *env
			sub.old = st.snapshot()
			for _, l := range x.locsOf(&sub, []*Clause{cl}) {
				x.havocLoc(st, l)
			}
		case "assert":
			f := strings.SplitN(s.text, " ", 2)
			if len(f) != 2 {
				fail("assert needs a name and an expression")
			}
			e, perr := ParseExpr(f[1])
			if perr != nil {
				fail("%v", perr)
			}
			sub := *env
			sub.pol = 1
			g := sub.boolTerm(e)
			x.oblige(st, f[0], d.props, g, f[1])
		case "call":
			steps++
			text := s.text
			resName := ""
			if i := strings.Index(text, "="); i >= 0 && !strings.Contains(text[:i], "(") {
				resName = strings.TrimSpace(text[:i])
				text = strings.TrimSpace(text[i+1:])
			}
			op := strings.LastIndex(text[:strings.LastIndex(text, ")")+1], ")")
			// key is everything before the argument list: find the '(' matching the final ')'
			depth := 0
			open := -1
			for j := op; j >= 0; j-- {
				if text[j] == ')' {
					depth++
				} else if text[j] == '(' {
					depth--
					if depth == 0 {
						open = j
						break
					}
				}
			}
			if open < 0 {
				fail("cannot parse call %q", text)
			}
			key := strings.TrimSpace(text[:open])
			curCall = key
			var args []Val
			var argTs []types.Type
			argText := strings.TrimSpace(text[open+1 : op])
			if argText != "" {
				for _, part := range splitTop(argText, ',') {
					e, perr := ParseExpr(part)
					if perr != nil {
						fail("%v", perr)
					}
					tv := env.eval(e)
					args = append(args, tv.V)
					argTs = append(argTs, tv.T)
				}
			}
			c := eng.contractByKey(key)
			if c == nil {
				fail("no contract for %q", key)
			}
			fn := eng.funcs[key]
			var resT types.Type
			var sig *types.Signature
			if fn != nil {
				resT = fn.Signature.Results()
				sig = fn.Signature
			}
			x.oblPrefix = "lemma." + file + "." + d.name + fmt.Sprintf("/step%d", steps)
			var got Val
			x.lastCalleeSnaps = nil
			x.applyContract(st, c, fn, sig, args, resT, key, argTs, func(st2 *State, r Val) { got = r })
			// intermediate states the callee's contract names (rely ... snap / presnap) are visible to the
			// lemma under the same labels (those of the latest call)
			for label, h := range x.lastCalleeSnaps {
				snaps[label] = h
			}
			x.oblPrefix = "lemma." + file + "." + d.name
			if resName != "" && resT != nil {
				tvs := resultTVs(got, resT)
				if len(tvs) == 1 {
					env.vars[resName] = tvs[0]
				} else {
					for i, tv := range tvs {
						env.vars[fmt.Sprintf("%s%d", resName, i)] = tv
					}
				}
			}
		}
	}
	// vacuity: the hypotheses of the lemma are satisfiable
	x.queries = append(x.queries, &Query{Name: x.oblPrefix + "/vacuity.hypotheses", Detail: "lemma hypotheses are satisfiable", Assume: append([]Term(nil), st.pc...), Goal: TFalse, Decls: x.decls, ExpectSat: true})
	return
}
