#!/usr/bin/env python3
"""Builds a `go test -overlay` file that (a) injects one in-package test into /repo (or a copy) and
(b) replaces a few gocbcore DCPAgent/ConfigSnapshot methods by scriptable hooks, so that go-dcp's real
client functions can be run without a server. Nothing under /repo or the module cache is written.
usage: mk_gocbcore_overlay.py <repo> <pkgdir> <outdir> <testfile>...  -> prints path of overlay json"""
import json, os, re, sys
repo, pkgdir, outdir = sys.argv[1:4]
testfiles = sys.argv[4:]
G = "/root/go/pkg/mod/github.com/couchbase/gocbcore/v10@v10.5.2"
os.makedirs(outdir, exist_ok=True)
ov = {"Replace": {}}
# 1. the test
for tf in testfiles:
    ov["Replace"][os.path.join(repo, pkgdir, "zz_verif_" + os.path.basename(tf))] = os.path.abspath(tf)
# 2. gocbcore hooks
src = open(os.path.join(G, "dcpagent.go")).read()
src = src.replace("""	return agent.dcp.GetVbucketSeqnos(serverIdx, state, opts, cb)
}""", """	if VerifGetVbucketSeqnos != nil {
		return VerifGetVbucketSeqnos(serverIdx, state, opts, cb)
	}
	return agent.dcp.GetVbucketSeqnos(serverIdx, state, opts, cb)
}

// hooks used only by /verif replays (injected by -overlay; the module cache is untouched)
var (
	VerifGetVbucketSeqnos      func(serverIdx int, state memd.VbucketState, opts GetVbucketSeqnoOptions, cb GetVBucketSeqnosCallback) (PendingOp, error)
	VerifHasCollectionsSupport func() bool
	VerifConfigSnapshot        func() (*ConfigSnapshot, error)
	VerifNumServers            = -1
	VerifGetFailoverLog        func(vbID uint16, cb GetFailoverLogCallback) (PendingOp, error)
	VerifOpenStream            func(vbID uint16, flags memd.DcpStreamAddFlag, vbUUID VbUUID, startSeqNo, endSeqNo, snapStartSeqNo, snapEndSeqNo SeqNo, evtHandler StreamObserver, opts OpenStreamOptions, cb OpenStreamCallback) (PendingOp, error)
)""")
src = src.replace("""	return agent.kvMux.SupportsCollections()
}""", """	if VerifHasCollectionsSupport != nil {
		return VerifHasCollectionsSupport()
	}
	return agent.kvMux.SupportsCollections()
}""")
src = src.replace("""func (agent *DCPAgent) ConfigSnapshot() (*ConfigSnapshot, error) {
	return agent.kvMux.ConfigSnapshot()""", """func (agent *DCPAgent) ConfigSnapshot() (*ConfigSnapshot, error) {
	if VerifConfigSnapshot != nil {
		return VerifConfigSnapshot()
	}
	return agent.kvMux.ConfigSnapshot()""")
src = re.sub(r"(func \(agent \*DCPAgent\) GetFailoverLog\(vbID uint16, cb GetFailoverLogCallback\) \(PendingOp, error\) \{\n)", r"\1\tif VerifGetFailoverLog != nil {\n\t\treturn VerifGetFailoverLog(vbID, cb)\n\t}\n", src)
src = re.sub(r"(func \(agent \*DCPAgent\) OpenStream\(vbID uint16, flags memd.DcpStreamAddFlag, vbUUID VbUUID, startSeqNo,\n\tendSeqNo, snapStartSeqNo, snapEndSeqNo SeqNo, evtHandler StreamObserver, opts OpenStreamOptions,\n\tcb OpenStreamCallback\) \(PendingOp, error\) \{\n)", r"\1\tif VerifOpenStream != nil {\n\t\treturn VerifOpenStream(vbID, flags, vbUUID, startSeqNo, endSeqNo, snapStartSeqNo, snapEndSeqNo, evtHandler, opts, cb)\n\t}\n", src)
p = os.path.join(outdir, "dcpagent.go"); open(p, "w").write(src); ov["Replace"][os.path.join(G, "dcpagent.go")] = p
cs = open(os.path.join(G, "configsnapshot.go")).read()
cs = cs.replace("""func (pi ConfigSnapshot) NumServers() (int, error) {
""", """func (pi ConfigSnapshot) NumServers() (int, error) {
	if VerifNumServers >= 0 {
		return VerifNumServers, nil
	}
""")
cs = cs.replace("""func (pi ConfigSnapshot) BucketUUID() string {
""", """func (pi ConfigSnapshot) BucketUUID() string {
	if pi.state == nil {
		return "verif-replay-bucket"
	}
""")
cs = cs.replace("""func (pi ConfigSnapshot) NumReplicas() (int, error) {
""", """func (pi ConfigSnapshot) NumReplicas() (int, error) {
	if VerifNumReplicas != nil {
		return VerifNumReplicas()
	}
""")
cs = cs.replace("""func (pi ConfigSnapshot) VbucketToServer(vbID uint16, replicaIdx uint32) (int, error) {
""", """func (pi ConfigSnapshot) VbucketToServer(vbID uint16, replicaIdx uint32) (int, error) {
	if VerifVbucketToServer != nil {
		return VerifVbucketToServer(vbID, replicaIdx)
	}
""")
cs += """
// hooks used only by /verif replays (injected by -overlay)
var (
	VerifNumReplicas     func() (int, error)
	VerifVbucketToServer func(vbID uint16, replicaIdx uint32) (int, error)
)
"""
p = os.path.join(outdir, "configsnapshot.go"); open(p, "w").write(cs); ov["Replace"][os.path.join(G, "configsnapshot.go")] = p
ag = open(os.path.join(G, "agent.go")).read()
ag = ag.replace("""	return agent.kvMux.WaitForConfigSnapshot(deadline, cb)""", """	if VerifWaitForConfigSnapshot != nil {
		return VerifWaitForConfigSnapshot(deadline, opts, cb)
	}
	return agent.kvMux.WaitForConfigSnapshot(deadline, cb)""")
ag += """
// hook used only by /verif replays (injected by -overlay)
var VerifWaitForConfigSnapshot func(deadline time.Time, opts WaitForConfigSnapshotOptions, cb WaitForConfigSnapshotCallback) (PendingOp, error)
"""
p = os.path.join(outdir, "agent.go"); open(p, "w").write(ag); ov["Replace"][os.path.join(G, "agent.go")] = p
# 3. KV operation hooks on Agent (used by the C20 wrapper scenarios)
ops = open(os.path.join(G, "agent_ops.go")).read()
for meth, args in [("Get", "opts, cb"), ("Delete", "opts, cb"), ("Set", "opts, cb"), ("LookupIn", "opts, cb"), ("MutateIn", "opts, cb")]:
    ops = ops.replace("\treturn agent.crud.%s(%s)\n}" % (meth, args), "\tif Verif%s != nil {\n\t\treturn Verif%s(%s)\n\t}\n\treturn agent.crud.%s(%s)\n}" % (meth, meth, args, meth, args), 1)
ops = ops.replace("\treturn agent.observe.ObserveVb(opts, cb)\n}", "\tif VerifObserveVb != nil {\n\t\treturn VerifObserveVb(opts, cb)\n\t}\n\treturn agent.observe.ObserveVb(opts, cb)\n}", 1)
ops += """
// hooks used only by /verif replays (injected by -overlay)
var (
	VerifObserveVb func(opts ObserveVbOptions, cb ObserveVbCallback) (PendingOp, error)
	VerifGet      func(opts GetOptions, cb GetCallback) (PendingOp, error)
	VerifDelete   func(opts DeleteOptions, cb DeleteCallback) (PendingOp, error)
	VerifSet      func(opts SetOptions, cb StoreCallback) (PendingOp, error)
	VerifLookupIn func(opts LookupInOptions, cb LookupInCallback) (PendingOp, error)
	VerifMutateIn func(opts MutateInOptions, cb MutateInCallback) (PendingOp, error)
)
"""
p = os.path.join(outdir, "agent_ops.go"); open(p, "w").write(ops); ov["Replace"][os.path.join(G, "agent_ops.go")] = p
j = os.path.join(outdir, "overlay.json"); json.dump(ov, open(j, "w"), indent=1); print(j)
