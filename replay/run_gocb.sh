#!/bin/bash
# replay/run_gocb.sh <repo> <pkgdir> <TestName> <testfile>...: like run_inpkg.sh, plus scriptable gocbcore hooks
set -u
repo=$1; pkg=$2; name=$3; shift 3
d=$(mktemp -d /tmp/ovg.XXXX)
J=$(python3 "$(dirname "$0")/mk_gocbcore_overlay.py" "$repo" "$pkg" "$d" "$@")
cp "$repo/go.mod" "$repo/go.sum" "$d/"  # the module files of the tree under check are never written
cd "$repo" && GOFLAGS=-mod=mod GOPROXY=off GOSUMDB=off GOTOOLCHAIN=local go test -modfile="$d/go.mod" -overlay "$J" -vet=off -timeout 120s -count=1 -run "^$name\$" "./$pkg/" > "$d/out.txt" 2>&1
rc=$?
grep -E '^(--- FAIL|--- PASS|FAIL|ok  |panic:)' "$d/out.txt" | head -8
grep -vE '^(--- FAIL|--- PASS|FAIL|ok  |panic:)' "$d/out.txt" | head -14
rm -rf "$d"
exit $rc
