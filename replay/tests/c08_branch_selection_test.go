package couchbase

// Fallback decider for property C08 (run when a proof obligation of C08 fails or cannot be
// generated): small-scope exhaustive run of the real openStreamWithRollback against a scripted
// DCP agent. Scope: every failover log of length 0..4 with start seqnos in 0..4 (any order), rollback
// point R in 0..5, two checkpointed positions F in {R, R+2}. Oracle (from the property): the
// re-request names the newest entry (lowest index) whose start <= R, 0 when there is none, starts at R
// with snapshot [R,R] and keeps the requested end.

import (
	"testing"

	"github.com/Trendyol/go-dcp/config"
	"github.com/Trendyol/go-dcp/logger"
	"github.com/couchbase/gocbcore/v10"
	"github.com/couchbase/gocbcore/v10/memd"
)

type verifC08Op struct{}

func (verifC08Op) Cancel() {}

func TestVerifReplayC08BranchSelection(t *testing.T) {
	if logger.Log == nil {
		logger.InitDefaultLogger("error")
	}
	var log []gocbcore.FailoverEntry
	type req struct {
		uuid                     gocbcore.VbUUID
		start, end, snapS, snapE gocbcore.SeqNo
	}
	var got []req
	gocbcore.VerifGetFailoverLog = func(vbID uint16, cb gocbcore.GetFailoverLogCallback) (gocbcore.PendingOp, error) {
		go cb(log, nil)
		return verifC08Op{}, nil
	}
	gocbcore.VerifOpenStream = func(vbID uint16, flags memd.DcpStreamAddFlag, vbUUID gocbcore.VbUUID, startSeqNo, endSeqNo, snapStartSeqNo, snapEndSeqNo gocbcore.SeqNo, evtHandler gocbcore.StreamObserver, opts gocbcore.OpenStreamOptions, cb gocbcore.OpenStreamCallback) (gocbcore.PendingOp, error) {
		got = append(got, req{vbUUID, startSeqNo, endSeqNo, snapStartSeqNo, snapEndSeqNo})
		go cb([]gocbcore.FailoverEntry{{VbUUID: vbUUID, SeqNo: 0}}, nil)
		return verifC08Op{}, nil
	}
	defer func() { gocbcore.VerifGetFailoverLog, gocbcore.VerifOpenStream = nil, nil }()
	c := &client{dcpAgent: &gocbcore.DCPAgent{}, config: &config.Dcp{}}
	cases, bad := 0, 0
	var gen func(n int, cur []gocbcore.FailoverEntry)
	run := func(entries []gocbcore.FailoverEntry) {
		for R := gocbcore.SeqNo(0); R <= 5; R++ {
			for _, F := range []gocbcore.SeqNo{R, R + 2} {
				cases++
				log = append([]gocbcore.FailoverEntry(nil), entries...)
				got = nil
				obs := &observer{vbID: 3, config: &config.Dcp{}}
				err := c.openStreamWithRollback(3, F, R, 1000, obs, gocbcore.OpenStreamOptions{})
				var want gocbcore.VbUUID
				for _, e := range entries {
					if e.SeqNo <= R {
						want = e.VbUUID
						break
					}
				}
				if err != nil || len(got) != 1 || got[0] != (req{want, R, 1000, R, R}) {
					if bad++; bad <= 5 {
						t.Errorf("VIOLATION C08: failover log %v, rollback to %d (checkpoint %d): re-request %+v err=%v, want vbUUID=%d start=%d snapshot=[%d,%d] end=1000", entries, R, F, got, err, want, R, R, R)
					}
				}
			}
		}
	}
	gen = func(n int, cur []gocbcore.FailoverEntry) {
		run(cur)
		if n == 0 {
			return
		}
		for s := gocbcore.SeqNo(0); s <= 4; s++ {
			gen(n-1, append(append([]gocbcore.FailoverEntry(nil), cur...), gocbcore.FailoverEntry{VbUUID: gocbcore.VbUUID(100 + len(cur)*10 + int(s)), SeqNo: s}))
		}
	}
	gen(4, nil)
	if bad > 5 {
		t.Errorf("... and %d more", bad-5)
	}
	t.Logf("C08 branch selection: %d cases", cases)
}
