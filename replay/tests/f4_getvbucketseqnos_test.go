package couchbase

// Replay of finding F4 (property C20): the server answers a sequence-number
// query with an error status; the wrapper must not report success.

import (
	"errors"
	"testing"

	"github.com/Trendyol/go-dcp/config"
	"github.com/couchbase/gocbcore/v10"
	"github.com/couchbase/gocbcore/v10/memd"
)

type verifFakeOp struct{}

func (verifFakeOp) Cancel() {}

func TestVerifReplayF4(t *testing.T) {
	gocbcore.VerifNumServers = 1
	gocbcore.VerifHasCollectionsSupport = func() bool { return false }
	gocbcore.VerifConfigSnapshot = func() (*gocbcore.ConfigSnapshot, error) { return &gocbcore.ConfigSnapshot{}, nil }
	gocbcore.VerifGetVbucketSeqnos = func(serverIdx int, state memd.VbucketState, opts gocbcore.GetVbucketSeqnoOptions, cb gocbcore.GetVBucketSeqnosCallback) (gocbcore.PendingOp, error) {
		go cb(nil, errors.New("server answered with an error status"))
		return verifFakeOp{}, nil
	}
	c := &client{dcpAgent: &gocbcore.DCPAgent{}, config: &config.Dcp{}}
	m, err := c.GetVBucketSeqNos(false)
	if err == nil {
		n := -1
		if m != nil {
			n = m.Count()
		}
		t.Fatalf("VIOLATION C20: GetVBucketSeqNos reported success (err=nil, %d entries) for an operation the server answered with an error", n)
	}
	t.Logf("error propagated: %v", err)
}
