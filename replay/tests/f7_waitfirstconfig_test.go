package couchbase

// Replay of finding F7 (property C20): gocbcore completes WaitForConfigSnapshot with
// (nil, err) on timeout / cancel / shutdown; the completion must neither block nor panic.

import (
	"errors"
	"testing"
	"time"

	"github.com/Trendyol/go-dcp/config"
	"github.com/Trendyol/go-dcp/models"
	"github.com/couchbase/gocbcore/v10"
)

type verifAgentClient struct{ Client }

func (verifAgentClient) GetAgent() *gocbcore.Agent { return &gocbcore.Agent{} }

type verifFakeOp7 struct{}

func (verifFakeOp7) Cancel() {}

func TestVerifReplayF7(t *testing.T) {
	panicked := make(chan interface{}, 1)
	gocbcore.VerifWaitForConfigSnapshot = func(deadline time.Time, opts gocbcore.WaitForConfigSnapshotOptions, cb gocbcore.WaitForConfigSnapshotCallback) (gocbcore.PendingOp, error) {
		go func() {
			defer func() { panicked <- recover() }()
			// exactly what gocbcore's kvMux does when the deadline passes
			cb(nil, errors.New("unambiguous timeout"))
		}()
		return verifFakeOp7{}, nil
	}
	r := NewRollbackMitigation(verifAgentClient{}, &config.Dcp{ConnectionTimeout: time.Second}, []uint16{0}, func(*models.PersistSeqNo) {}).(*rollbackMitigation)
	done := make(chan error, 1)
	go func() { done <- r.waitFirstConfig() }()
	select {
	case p := <-panicked:
		if p != nil {
			t.Fatalf("VIOLATION C20: the completion callback panicked: %v", p)
		}
	case <-time.After(5 * time.Second):
		t.Fatalf("callback did not complete")
	}
	select {
	case err := <-done:
		if err == nil {
			t.Fatalf("VIOLATION C20: success reported for a wait that timed out")
		}
		t.Logf("error returned: %v", err)
	case <-time.After(5 * time.Second):
		t.Fatalf("VIOLATION C20: waitFirstConfig did not return")
	}
}
