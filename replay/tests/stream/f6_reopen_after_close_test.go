package stream

// Replay of finding F6 (property C11/C12): a re-open goroutine spawned for a transient
// stream end runs after a membership change has closed the stream. It must give up;
// it must not terminate the client ("a rebalance never terminates the client").

import (
	"testing"
	"time"
)

func TestVerifReplayF6(t *testing.T) {
	s := newReplayStream([]uint16{0}, &vfConsumer{}, &vfMetadata{}, &vfClient{})
	s.Rebalance() // stream closed, waiting for the delay
	done := make(chan interface{}, 1)
	start := time.Now()
	go func() {
		defer func() { done <- recover() }()
		s.reopenStream(0) // the body of `go s.reopenStream(vbID)` spawned by listenEnd before the close
	}()
	select {
	case p := <-done:
		if p != nil {
			t.Fatalf("VIOLATION C11: re-open after a rebalance close panicked after %v (the process would terminate): %v", time.Since(start), p)
		}
	case <-time.After(20 * time.Second):
		t.Fatalf("re-open did not finish")
	}
	s.rebalanceTimer.Stop()
}
