package stream

// Fakes shared by the /verif replays of package stream (injected with `go test -overlay`).

import (
	"errors"
	"sync"
	"time"

	"github.com/Trendyol/go-dcp/config"
	"github.com/Trendyol/go-dcp/couchbase"
	"github.com/Trendyol/go-dcp/logger"
	"github.com/Trendyol/go-dcp/models"
	"github.com/Trendyol/go-dcp/tracing"
	"github.com/Trendyol/go-dcp/wrapper"
	"github.com/couchbase/gocbcore/v10"
)

type vfConsumer struct {
	mu      sync.Mutex
	onEvent func(ctx *models.ListenerContext)
	tracked []uint64
}

func (c *vfConsumer) ConsumeEvent(ctx *models.ListenerContext) {
	if c.onEvent != nil {
		c.onEvent(ctx)
	}
}

func (c *vfConsumer) TrackOffset(vbID uint16, offset *models.Offset) {
	c.mu.Lock()
	c.tracked = append(c.tracked, offset.SeqNo)
	c.mu.Unlock()
}

type vfMetadata struct {
	mu     sync.Mutex
	stored map[uint16]uint64 // vb -> seqNo of the last stored document
	writes int
	onSave func() error // runs inside Save, before the write is applied
}

func (m *vfMetadata) Save(state map[uint16]*models.CheckpointDocument, dirty map[uint16]bool, _ string) error {
	if m.onSave != nil {
		if err := m.onSave(); err != nil {
			return err
		}
	}
	m.mu.Lock()
	defer m.mu.Unlock()
	if m.stored == nil {
		m.stored = map[uint16]uint64{}
	}
	for vb, doc := range state {
		if dirty[vb] {
			m.stored[vb] = doc.Checkpoint.SeqNo
			m.writes++
		}
	}
	return nil
}

func (m *vfMetadata) Load(vbIds []uint16, bucketUUID string) (*wrapper.ConcurrentSwissMap[uint16, *models.CheckpointDocument], bool, error) {
	st := wrapper.CreateConcurrentSwissMap[uint16, *models.CheckpointDocument](16)
	for _, vb := range vbIds {
		st.Store(vb, models.NewEmptyCheckpointDocument(bucketUUID))
	}
	return st, false, nil
}

func (m *vfMetadata) Clear(_ []uint16) error { return nil }

type vfClient struct {
	couchbase.Client
	mu         sync.Mutex
	openErr    error
	openDelay  time.Duration
	opened     []uint16
	closed     []uint16
	onClose    func(vbID uint16)
	seqNos     map[uint16]uint64
	openedWith map[uint16]couchbase.Observer
}

func (c *vfClient) GetVBucketSeqNos(bool) (*wrapper.ConcurrentSwissMap[uint16, uint64], error) {
	m := wrapper.CreateConcurrentSwissMap[uint16, uint64](16)
	for k, v := range c.seqNos {
		m.Store(k, v)
	}
	return m, nil
}

func (c *vfClient) GetFailOverLogs(uint16) ([]gocbcore.FailoverEntry, error) {
	return []gocbcore.FailoverEntry{{VbUUID: 1, SeqNo: 0}}, nil
}

func (c *vfClient) OpenStream(vbID uint16, _ map[uint32]string, _ *models.Offset, o couchbase.Observer) error {
	if c.openDelay > 0 {
		time.Sleep(c.openDelay) // a server that answers slowly (outside the lock: requests overlap)
	}
	c.mu.Lock()
	defer c.mu.Unlock()
	if c.openErr != nil {
		return c.openErr
	}
	c.opened = append(c.opened, vbID)
	if c.openedWith == nil {
		c.openedWith = map[uint16]couchbase.Observer{}
	}
	c.openedWith[vbID] = o
	return nil
}

func (c *vfClient) CloseStream(vbID uint16) error {
	c.mu.Lock()
	c.closed = append(c.closed, vbID)
	f := c.onClose
	c.mu.Unlock()
	if f != nil {
		f(vbID)
	}
	return nil
}

func (c *vfClient) GetDcpAgentConfigSnapshot() (*gocbcore.ConfigSnapshot, error) {
	// usable only under replay/run_gocb.sh (BucketUUID is made nil-safe by overlay)
	return &gocbcore.ConfigSnapshot{}, nil
}

var _ = errors.New

type vfDiscovery struct{ ids []uint16 }

func (d *vfDiscovery) Get() []uint16                      { return d.ids }
func (d *vfDiscovery) Close()                             {}
func (d *vfDiscovery) GetMetric() *VBucketDiscoveryMetric { return &VBucketDiscoveryMetric{} }

type vfCheckpoint struct {
	Checkpoint
	offsets map[uint16]uint64
}

func init() { logger.InitDefaultLogger("error") }

// newReplayStream builds a *stream the way NewStream does, with fakes at the interface boundary.
func newReplayStream(ids []uint16, consumer *vfConsumer, md *vfMetadata, cl *vfClient) *stream {
	cfg := &config.Dcp{}
	cfg.RollbackMitigation.Disabled = true
	cfg.Checkpoint.Type = "manual"
	cfg.Dcp.Group.Membership.RebalanceDelay = time.Hour
	s := &stream{
		client:                     cl,
		metadata:                   md,
		consumer:                   consumer,
		config:                     cfg,
		bucketInfo:                 &couchbase.BucketInfo{},
		vBucketDiscovery:           &vfDiscovery{ids: ids},
		collectionIDs:              map[uint32]string{},
		finishStreamWithCloseCh:    make(chan struct{}, 1),
		finishStreamWithEndEventCh: make(chan struct{}, 1),
		stopCh:                     make(chan struct{}, 1),
		eventHandler:               models.DefaultEventHandler,
		metric:                     &Metric{},
		tracerComponent:            tracing.NewTracerComponent(),
	}
	// the part of Open() that does not need a server: range, maps, checkpoint object
	s.vbIDRange = &models.VbIDRange{Start: ids[0], End: ids[len(ids)-1]}
	s.offsets = wrapper.CreateConcurrentSwissMap[uint16, *models.Offset](16)
	s.dirtyOffsets = wrapper.CreateConcurrentSwissMap[uint16, bool](16)
	s.observers = wrapper.CreateConcurrentSwissMap[uint16, couchbase.Observer](16)
	for _, vb := range ids {
		s.offsets.Store(vb, &models.Offset{SnapshotMarker: &models.SnapshotMarker{}, SeqNo: 0})
		s.observers.Store(vb, couchbase.NewObserver(cfg, vb, ^uint64(0), s.listen, s.listenEnd, s.collectionIDs, s.tracerComponent))
	}
	s.checkpoint = &checkpoint{stream: s, client: cl, metadata: md, config: cfg, saveLock: &sync.Mutex{}, loadLock: &sync.Mutex{}, metric: &CheckpointMetric{}, vbIds: ids, bucketUUID: "b"}
	s.activeStreams.Store(int32(len(ids)))
	s.open = true
	return s
}

func vfOffset(seq uint64) *models.Offset {
	return &models.Offset{SnapshotMarker: &models.SnapshotMarker{StartSeqNo: seq, EndSeqNo: seq}, SeqNo: seq, VbUUID: 1}
}
