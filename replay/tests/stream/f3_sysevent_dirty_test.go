package stream

// Replay of finding F3 (property C05): a vBucket advanced only by a
// seqno-advanced / system event must be stored by the next successful save.

import (
	"testing"

	"github.com/Trendyol/go-dcp/models"
	"github.com/couchbase/gocbcore/v10"
)

func TestVerifReplayF3(t *testing.T) {
	md := &vfMetadata{}
	s := newReplayStream([]uint16{0}, &vfConsumer{}, md, &vfClient{})
	adv := gocbcore.DcpSeqNoAdvanced{SeqNo: 7, VbID: 0}
	s.listen(models.ListenerArgs{Event: models.InternalDcpSeqNoAdvance{DcpSeqNoAdvanced: &adv, Offset: vfOffset(7)}})
	cur, _ := s.offsets.Load(0)
	if cur.SeqNo != 7 {
		t.Fatalf("position not advanced: %d", cur.SeqNo)
	}
	s.Save()
	if md.stored[0] != 7 {
		_, dirty, anyDirty := s.GetOffsets()
		d, _ := dirty.Load(0)
		t.Fatalf("VIOLATION C05: position 7 (settled by a seqno-advanced event) was not stored by a successful save: stored=%d dirty=%v anyDirtyOffset=%v writes=%d", md.stored[0], d, anyDirty, md.writes)
	}
}
