package stream

// Replay of finding F1 (property C13): Close() arriving inside the rebalance-delay
// window (the stream was already closed by Rebalance) must return without crashing.

import (
	"testing"
	"time"
)

func TestVerifReplayF1(t *testing.T) {
	s := newReplayStream([]uint16{0, 1}, &vfConsumer{}, &vfMetadata{}, &vfClient{})
	s.Rebalance() // closes the stream, arms the (1h) timer
	if s.rebalanceTimer == nil || !s.balancing {
		t.Fatalf("unexpected state after Rebalance")
	}
	done := make(chan interface{}, 1)
	go func() {
		defer func() { done <- recover() }()
		s.Close(true) // what Dcp.Close() / SIGTERM does
	}()
	select {
	case p := <-done:
		if p != nil {
			t.Fatalf("VIOLATION C13: Close() inside the rebalance window crashed: %v", p)
		}
	case <-time.After(5 * time.Second):
		t.Fatalf("VIOLATION C13: Close() inside the rebalance window did not return")
	}
	if s.rebalanceTimer.Stop() {
		t.Fatalf("VIOLATION C13: the rebalance timer is still armed after Close(): the stream would be reopened after shutdown")
	}
}
