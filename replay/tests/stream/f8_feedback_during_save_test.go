package stream

// Replay of finding F8 (property C14): the checkpoint write of a vBucket is fed back into the
// stream as a mutation of a library-reserved key; when that event arrives before the store call
// has returned it moves the vBucket's position without flagging it. That must not keep the
// vBucket flagged for saving: otherwise every save triggers the next one for ever.

import (
	"testing"

	"github.com/Trendyol/go-dcp/helpers"
	"github.com/Trendyol/go-dcp/models"
	"github.com/couchbase/gocbcore/v10"
)

func TestVerifReplayF8(t *testing.T) {
	md := &vfMetadata{}
	var acks []func()
	consumer := &vfConsumer{onEvent: func(ctx *models.ListenerContext) { acks = append(acks, ctx.Ack) }}
	s := newReplayStream([]uint16{0}, consumer, md, &vfClient{})
	deliver := func(seq uint64, key string) {
		m := gocbcore.DcpMutation{SeqNo: seq, VbID: 0, Key: []byte(key)}
		s.listen(models.ListenerArgs{Event: models.InternalDcpMutation{DcpMutation: &m, Offset: vfOffset(seq)}})
	}
	deliver(10, "user-document")
	acks[0]()
	next := uint64(10)
	md.onSave = func() error {
		// closed loop: the write of vb 0's checkpoint document lands in the streamed bucket (here in
		// vb 0 itself) and is delivered before the store call returns
		next++
		deliver(next, helpers.Prefix+"group:checkpoint:0")
		return nil
	}
	s.Save()
	if md.writes != 1 || md.stored[0] != 10 {
		t.Fatalf("first save: writes=%d stored=%d, want 1 write of position 10", md.writes, md.stored[0])
	}
	if len(acks) != 1 {
		t.Fatalf("a library document was shown to the consumer")
	}
	for i := 0; i < 5; i++ {
		s.Save() // the consumer acknowledged nothing since the first save
	}
	if md.writes != 1 {
		t.Fatalf("VIOLATION C14: checkpoint writes feed on themselves: %d writes for one acknowledged event (each save's own feedback kept vb 0 flagged)", md.writes)
	}
}
