package stream

// Replay of finding F2 (property C05): an acknowledgement that lands while the
// metadata store is executing Save must not be forgotten: the next successful
// save stores it.

import (
	"testing"

	"github.com/Trendyol/go-dcp/models"
	"github.com/couchbase/gocbcore/v10"
)

func TestVerifReplayF2(t *testing.T) {
	md := &vfMetadata{}
	var acks []func()
	consumer := &vfConsumer{onEvent: func(ctx *models.ListenerContext) { acks = append(acks, ctx.Ack) }}
	s := newReplayStream([]uint16{0}, consumer, md, &vfClient{})
	deliver := func(seq uint64) {
		m := gocbcore.DcpMutation{SeqNo: seq, VbID: 0, Key: []byte("k")}
		s.listen(models.ListenerArgs{Event: models.InternalDcpMutation{DcpMutation: &m, Offset: vfOffset(seq)}})
	}
	deliver(10)
	deliver(11)
	acks[0]() // event 10 settled before the save begins
	md.onSave = func() error {
		md.onSave = nil
		acks[1]() // event 11 is acknowledged while the store call is in flight
		return nil
	}
	s.Save() // stores 10
	if md.stored[0] != 10 {
		t.Fatalf("first save stored %d, want 10", md.stored[0])
	}
	cur, _ := s.offsets.Load(0)
	if cur.SeqNo != 11 {
		t.Fatalf("tracked position %d, want 11", cur.SeqNo)
	}
	s.Save() // nothing else happens: this save must store 11
	s.Save()
	if md.stored[0] != 11 {
		_, dirty, anyDirty := s.GetOffsets()
		d, _ := dirty.Load(0)
		t.Fatalf("VIOLATION C05: acknowledged position 11 never becomes durable: stored=%d after two further successful saves (dirty=%v anyDirtyOffset=%v)", md.stored[0], d, anyDirty)
	}
}
