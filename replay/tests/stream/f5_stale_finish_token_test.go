package stream

// Replay of finding F5 (properties C11/C12): one close cycle can leave a finish token
// buffered (the last END and Close both send, wait consumes one). The next session's
// wait then returns at once: it either stops the client although only a rebalance
// happened, or it has exited and the client never stops when the streams end for good.
// The test plays the scheduler: the first session's wait() runs after both sends.

import (
	"testing"
	"time"

	"github.com/Trendyol/go-dcp/models"
	"github.com/couchbase/gocbcore/v10"
)

func TestVerifReplayF5(t *testing.T) {
	cl := &vfClient{seqNos: map[uint16]uint64{0: 5}}
	s := newReplayStream([]uint16{0}, &vfConsumer{}, &vfMetadata{}, cl)
	// the server confirms the close with an END event before CloseStream returns
	cl.onClose = func(vbID uint16) {
		obs, _ := s.observers.Load(vbID)
		obs.End(models.DcpStreamEnd{VbID: vbID}, gocbcore.ErrDCPStreamClosed)
	}
	s.Rebalance() // Close(false): END arrives first (token 1), then Close sends its own (token 2)
	cl.onClose = nil
	s.wait() // the first session's wait goroutine gets scheduled only now: consumes ONE token
	select {
	case <-s.stopCh:
		t.Fatalf("stopped during the rebalance close itself")
	default:
	}
	s.rebalanceTimer.Stop()
	s.rebalance() // what the timer does: reopen (real Open with fakes), balancing=false, unlock
	time.Sleep(200 * time.Millisecond)
	select {
	case <-s.stopCh:
		t.Fatalf("VIOLATION C11: the client was stopped by a rebalance (stale finish token consumed by the new session's wait)")
	default:
	}
	// now the (finite) stream really ends: the client must stop on its own
	obs, _ := s.observers.Load(0)
	obs.End(models.DcpStreamEnd{VbID: 0}, nil)
	select {
	case <-s.stopCh:
	case <-time.After(2 * time.Second):
		t.Fatalf("VIOLATION C12: every vBucket ended for good but the client never stops (the session's wait had already exited on a stale token)")
	}
}
