#!/bin/bash
# replay/run_inpkg.sh <repo> <pkgdir> <TestName> <testfile> [more files...]: injects in-package test files by overlay and runs one test
set -u
repo=$1; pkg=$2; name=$3; shift 3
ov=$(mktemp /tmp/ov.XXXX.json)
python3 - "$repo" "$pkg" "$ov" "$@" <<'PY'
import json,os,sys
repo,pkg,ov=sys.argv[1:4]
rep={}
for f in sys.argv[4:]:
    rep[os.path.join(repo,pkg,os.path.basename(f))]=os.path.abspath(f)
json.dump({"Replace":rep},open(ov,'w'))
PY
cd "$repo" && GOFLAGS=-mod=mod GOPROXY=off GOSUMDB=off GOTOOLCHAIN=local go test -overlay "$ov" -vet=off -timeout 60s -count=1 -run "^$name\$" "./$pkg/" 2>&1 | tail -12
rc=${PIPESTATUS[0]}
rm -f "$ov"
exit $rc
