#!/bin/bash
# replay/run_inpkg.sh <repo> <pkgdir> <TestName> <testfile> [more files...]: injects in-package test files by overlay and runs one test
set -u
repo=$1; pkg=$2; name=$3; shift 3
ov=$(mktemp /tmp/ov.XXXX.json)
python3 - "$repo" "$pkg" "$ov" "$@" <<'PY'
import json,os,sys
repo,pkg,ov=sys.argv[1:4]
rep={}
for f in sys.argv[4:]:
    rep[os.path.join(repo,pkg,os.path.basename(f))]=os.path.abspath(f)
json.dump({"Replace":rep},open(ov,'w'))
PY
mf=$(mktemp -d /tmp/modf.XXXX); cp "$repo/go.mod" "$repo/go.sum" "$mf/"  # the module files of the tree under check are never written
cd "$repo" && GOFLAGS=-mod=mod GOPROXY=off GOSUMDB=off GOTOOLCHAIN=local go test -modfile="$mf/go.mod" -overlay "$ov" -vet=off -timeout 60s -count=1 -run "^$name\$" "./$pkg/" > "$ov.out" 2>&1
rc=$?
grep -E '^(--- FAIL|--- PASS|FAIL|ok  |panic:)' "$ov.out" | head -8
grep -vE '^(--- FAIL|--- PASS|FAIL|ok  |panic:)' "$ov.out" | head -14
rm -rf "$ov" "$ov.out" "$mf"
exit $rc
