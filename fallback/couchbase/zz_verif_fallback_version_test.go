package couchbase

// Fallback decider (bounded, property C18): Higher / Lower / Equal on every pair of versions with components in
// {0, 1, 2} (6561 pairs), on pairs around the gates, and with extreme components. Oracle: lexicographic order on
// (major, minor, patch, build); exactly one of lower / equal / higher.

import "testing"

func TestVerifFallbackVersionOrder(t *testing.T) {
	cmp := func(a, b *Version) int {
		x := [4]int{a.Major, a.Minor, a.Patch, a.Build}
		y := [4]int{b.Major, b.Minor, b.Patch, b.Build}
		for i := 0; i < 4; i++ {
			if x[i] != y[i] {
				if x[i] > y[i] {
					return 1
				}
				return -1
			}
		}
		return 0
	}
	var vs []*Version
	for a := 0; a < 3; a++ {
		for b := 0; b < 3; b++ {
			for c := 0; c < 3; c++ {
				for d := 0; d < 3; d++ {
					vs = append(vs, &Version{a, b, c, d})
				}
			}
		}
	}
	for _, g := range []*Version{SrvVer550, SrvVer650, SrvVer720} {
		for _, d := range [][4]int{{0, 0, 0, 0}, {0, 0, 0, 1}, {0, 0, 0, -1}, {0, 0, 1, 0}, {0, 0, -1, 5000}, {0, 1, 0, 0}, {0, -1, 9, 9}, {1, 0, 0, 0}, {-1, 9, 9, 9}} {
			vs = append(vs, &Version{g.Major + d[0], g.Minor + d[1], g.Patch + d[2], g.Build + d[3]})
		}
	}
	big := int(^uint(0) >> 1)
	vs = append(vs, &Version{big, 0, 0, 0}, &Version{0, 0, 0, big}, &Version{-big, 1, 2, 3}, &Version{7, 2, 0, 5325}, &Version{7, 2, 1, 5001})
	for _, a := range vs {
		for _, b := range vs {
			c := cmp(a, b)
			if a.Higher(b) != (c > 0) || a.Lower(b) != (c < 0) || a.Equal(b) != (c == 0) {
				t.Fatalf("VIOLATION C18: %+v vs %+v: higher=%v lower=%v equal=%v, lexicographic order says %d", *a, *b, a.Higher(b), a.Lower(b), a.Equal(b), c)
			}
		}
	}
	if SrvVer550.Major != 5 || SrvVer550.Minor != 5 || SrvVer650.Major != 6 || SrvVer650.Minor != 5 || SrvVer720.Major != 7 || SrvVer720.Minor != 2 || SrvVer550.Patch+SrvVer650.Patch+SrvVer720.Patch+SrvVer550.Build+SrvVer650.Build+SrvVer720.Build != 0 {
		t.Fatalf("VIOLATION C18: gate constants changed: %+v %+v %+v", *SrvVer550, *SrvVer650, *SrvVer720)
	}
}
