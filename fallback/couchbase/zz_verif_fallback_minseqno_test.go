package couchbase

// Fallback decider (bounded, property C07): the real getMinSeqNo on every replica vector of length 0..4
// whose entries are absent or (vbUUID in {0,1,2}, seqNo in 0..3). Oracle from the property: 0 when every copy
// is absent or two present copies disagree on the vbUUID, otherwise the minimum persisted seqNo of the
// present copies.

import (
	"testing"

	"github.com/Trendyol/go-dcp/logger"
	"github.com/Trendyol/go-dcp/wrapper"
	"github.com/couchbase/gocbcore/v10"
)

func TestVerifFallbackMinSeqNo(t *testing.T) {
	if logger.Log == nil {
		logger.InitDefaultLogger("error")
	}
	type rep struct {
		absent bool
		uuid   uint64
		seq    uint64
	}
	var choices []rep
	choices = append(choices, rep{absent: true, uuid: 1, seq: 2})
	for u := uint64(0); u <= 2; u++ {
		for s := uint64(0); s <= 3; s++ {
			choices = append(choices, rep{false, u, s})
		}
	}
	cases, bad := 0, 0
	var gen func(n int, cur []rep)
	run := func(v []rep) {
		cases++
		r := &rollbackMitigation{persistedSeqNos: wrapper.CreateConcurrentSwissMap[uint16, []*vbUUIDAndSeqNo](4)}
		var reps []*vbUUIDAndSeqNo
		for _, c := range v {
			reps = append(reps, &vbUUIDAndSeqNo{vbUUID: gocbcore.VbUUID(c.uuid), seqNo: gocbcore.SeqNo(c.seq), absent: c.absent})
		}
		r.persistedSeqNos.Store(7, reps)
		got := uint64(r.getMinSeqNo(7))
		want, first, uuid, any := uint64(0), true, uint64(0), false
		for _, c := range v {
			if c.absent {
				continue
			}
			any = true
			if first {
				uuid, want, first = c.uuid, c.seq, false
				continue
			}
			if c.uuid != uuid {
				want, uuid = 0, 0
				any = false
				break
			}
			if c.seq < want {
				want = c.seq
			}
		}
		if !any {
			want = 0
		}
		if got != want {
			if bad++; bad <= 5 {
				t.Errorf("VIOLATION C07: getMinSeqNo(%+v) = %d, want %d", v, got, want)
			}
		}
	}
	gen = func(n int, cur []rep) {
		run(cur)
		if n == 0 {
			return
		}
		for _, c := range choices {
			gen(n-1, append(append([]rep(nil), cur...), c))
		}
	}
	gen(4, nil)
	if bad > 5 {
		t.Errorf("... and %d more", bad-5)
	}
	t.Logf("fallback C07 getMinSeqNo: %d cases", cases)
}
