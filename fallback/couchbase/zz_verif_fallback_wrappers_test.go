package couchbase

// Fallback decider (bounded, property C20): the seven document-operation wrappers of doc_op.go, run for real
// against a scripted gocbcore.Agent (operation hooks injected by overlay). Scenarios per wrapper:
//   ok        the server confirms                         -> the wrapper reports success (and the value)
//   error     the server answers with an error            -> exactly that error
//   refused   the request cannot be dispatched            -> exactly that error, no wait
//   silent    the server never answers                    -> an error by the deadline, the pending operation cancelled once
//   (all)     a non-zero deadline is handed to gocbcore
//   late      the completion arrives after the deadline   -> it neither blocks nor panics
// Bound: 7 wrappers x 5 scenarios, deadline 150 ms.

import (
	"context"
	"errors"
	"sync"
	"testing"
	"time"

	"github.com/couchbase/gocbcore/v10"
)

type vfPending struct {
	mu       sync.Mutex
	cancels  int
	onCancel func()
}

func (p *vfPending) Cancel() {
	p.mu.Lock()
	p.cancels++
	f := p.onCancel
	p.mu.Unlock()
	if f != nil {
		f()
	}
}

func TestVerifFallbackWrappers(t *testing.T) {
	errServer := errors.New("server said no")
	errRefused := errors.New("cannot dispatch")
	agent := &gocbcore.Agent{}
	type completion func(err error) // invokes the wrapper's callback
	var mode string
	var pending *vfPending
	var complete completion
	var lateDone chan struct{}
	var noDeadline bool
	script := func(c completion, deadline time.Time) (gocbcore.PendingOp, error) {
		noDeadline = deadline.IsZero()
		pending = &vfPending{}
		complete = c
		switch mode {
		case "ok":
			go c(nil)
		case "error":
			go c(errServer)
		case "refused":
			return nil, errRefused
		case "silent":
			// gocbcore completes a cancelled request synchronously from Cancel()
			pending.onCancel = func() { c(gocbcore.ErrRequestCanceled) }
		case "late":
			lateDone = make(chan struct{})
			pending.onCancel = func() {}
		}
		return pending, nil
	}
	gocbcore.VerifSet = func(o gocbcore.SetOptions, cb gocbcore.StoreCallback) (gocbcore.PendingOp, error) {
		return script(func(err error) {
			if err != nil {
				cb(nil, err)
			} else {
				cb(&gocbcore.StoreResult{}, nil)
			}
		}, o.Deadline)
	}
	gocbcore.VerifDelete = func(o gocbcore.DeleteOptions, cb gocbcore.DeleteCallback) (gocbcore.PendingOp, error) {
		return script(func(err error) {
			if err != nil {
				cb(nil, err)
			} else {
				cb(&gocbcore.DeleteResult{}, nil)
			}
		}, o.Deadline)
	}
	gocbcore.VerifMutateIn = func(o gocbcore.MutateInOptions, cb gocbcore.MutateInCallback) (gocbcore.PendingOp, error) {
		return script(func(err error) {
			if err != nil {
				cb(nil, err)
			} else {
				cb(&gocbcore.MutateInResult{}, nil)
			}
		}, o.Deadline)
	}
	gocbcore.VerifLookupIn = func(o gocbcore.LookupInOptions, cb gocbcore.LookupInCallback) (gocbcore.PendingOp, error) {
		return script(func(err error) {
			if err != nil {
				cb(nil, err)
			} else {
				cb(&gocbcore.LookupInResult{Ops: []gocbcore.SubDocResult{{Value: []byte("xattr")}}}, nil)
			}
		}, o.Deadline)
	}
	gocbcore.VerifGet = func(o gocbcore.GetOptions, cb gocbcore.GetCallback) (gocbcore.PendingOp, error) {
		return script(func(err error) {
			if err != nil {
				cb(nil, err)
			} else {
				cb(&gocbcore.GetResult{Value: []byte("doc")}, nil)
			}
		}, o.Deadline)
	}
	defer func() {
		gocbcore.VerifSet, gocbcore.VerifDelete, gocbcore.VerifMutateIn, gocbcore.VerifLookupIn, gocbcore.VerifGet = nil, nil, nil, nil, nil
	}()
	wrappers := map[string]func(ctx context.Context) (string, error){
		"CreateDocument": func(ctx context.Context) (string, error) {
			return "", CreateDocument(ctx, agent, "s", "c", []byte("k"), []byte("v"), 0, 0)
		},
		"UpdateDocument": func(ctx context.Context) (string, error) {
			return "", UpdateDocument(ctx, agent, "s", "c", []byte("k"), []byte("v"), 0, nil)
		},
		"DeleteDocument": func(ctx context.Context) (string, error) {
			return "", DeleteDocument(ctx, agent, "s", "c", []byte("k"))
		},
		"UpsertXattrs": func(ctx context.Context) (string, error) {
			return "", UpsertXattrs(ctx, agent, "s", "c", []byte("k"), "p", []byte("v"), 0)
		},
		"CreatePath": func(ctx context.Context) (string, error) {
			return "", CreatePath(ctx, agent, "s", "c", []byte("k"), []byte("p"), []byte("v"), 0)
		},
		"GetXattrs": func(ctx context.Context) (string, error) {
			v, err := GetXattrs(ctx, agent, "s", "c", []byte("k"), "p")
			return string(v), err
		},
		"Get": func(ctx context.Context) (string, error) {
			r, err := Get(ctx, agent, "s", "c", []byte("k"))
			if r != nil {
				return string(r.Value), err
			}
			return "", err
		},
	}
	values := map[string]string{"GetXattrs": "xattr", "Get": "doc"}
	for name, w := range wrappers {
		for _, m := range []string{"ok", "error", "refused", "silent", "late"} {
			mode = m
			ctx, cancel := context.WithTimeout(context.Background(), 150*time.Millisecond)
			type res struct {
				v   string
				err error
			}
			done := make(chan res, 1)
			start := time.Now()
			go func() { v, err := w(ctx); done <- res{v, err} }()
			var r res
			select {
			case r = <-done:
			case <-time.After(3 * time.Second):
				cancel()
				t.Fatalf("VIOLATION C20: %s, server %s: the call did not return (deadline 150ms, waited 3s)", name, m)
			}
			took := time.Since(start)
			cancel()
			if noDeadline && m != "refused" {
				t.Errorf("VIOLATION C20: %s: the request was handed to gocbcore without a deadline although the caller's context has one", name)
			}
			switch m {
			case "ok":
				if r.err != nil || r.v != values[name] {
					t.Errorf("VIOLATION C20: %s: server confirmed, wrapper returned (%q, %v)", name, r.v, r.err)
				}
			case "error":
				if r.err != errServer {
					t.Errorf("VIOLATION C20: %s: server answered %v, wrapper returned %v", name, errServer, r.err)
				}
			case "refused":
				if r.err != errRefused {
					t.Errorf("VIOLATION C20: %s: request refused with %v, wrapper returned %v", name, errRefused, r.err)
				}
			case "silent":
				if r.err == nil {
					t.Errorf("VIOLATION C20: %s: silent server, wrapper reported success after %v", name, took)
				}
				if pending.cancels != 1 {
					t.Errorf("VIOLATION C20: %s: silent server, pending operation cancelled %d times (want once)", name, pending.cancels)
				}
			case "late":
				if r.err == nil {
					t.Errorf("VIOLATION C20: %s: no answer by the deadline, wrapper reported success", name)
				}
				c := complete
				go func() { c(nil); close(lateDone) }()
				select {
				case <-lateDone:
				case <-time.After(2 * time.Second):
					t.Fatalf("VIOLATION C20: %s: a completion arriving after the deadline blocked", name)
				}
			}
		}
	}
	// GetXattrs is called by the checkpoint loader with a context that has no deadline: it must bring its own
	mode = "ok"
	if _, err := GetXattrs(context.Background(), agent, "s", "c", []byte("k"), "p"); err != nil || noDeadline {
		t.Errorf("VIOLATION C20: GetXattrs with a deadline-free context: err=%v, request handed to gocbcore without a deadline=%v", err, noDeadline)
	}
}
