package couchbase

// Fallback decider (bounded, property C10): the real cbMembership.rebalance on instance lists of 1..6 members
// with self at every position, for every previously announced numbering (none, same, different number,
// different size). Oracle: member number = own position (1-based), group size = list length, announced on
// the bus exactly when it differs from the numbering in effect, the list is remembered; self absent = panic.

import (
	"fmt"
	"testing"

	"github.com/asaskevich/EventBus"

	"github.com/Trendyol/go-dcp/helpers"
	"github.com/Trendyol/go-dcp/logger"
	"github.com/Trendyol/go-dcp/membership"
)

func TestVerifFallbackCBRebalance(t *testing.T) {
	if logger.Log == nil {
		logger.InitDefaultLogger("error")
	}
	cases := 0
	for size := 1; size <= 6; size++ {
		for pos := 0; pos < size; pos++ {
			prevs := []*membership.Model{nil, {MemberNumber: pos + 1, TotalMembers: size}, {MemberNumber: pos + 2, TotalMembers: size}, {MemberNumber: pos + 1, TotalMembers: size + 1}}
			for _, prev := range prevs {
				cases++
				bus := EventBus.New()
				var got []*membership.Model
				if err := bus.Subscribe(helpers.MembershipChangedBusEventName, func(m *membership.Model) { got = append(got, m) }); err != nil {
					t.Fatal(err)
				}
				h := &cbMembership{bus: bus, id: []byte("self"), info: prev}
				var list []Instance
				for i := 0; i < size; i++ {
					id := fmt.Sprintf("other-%d", i)
					if i == pos {
						id = "self"
					}
					list = append(list, Instance{ID: &id})
				}
				h.rebalance(list)
				changed := prev == nil || prev.MemberNumber != pos+1 || prev.TotalMembers != size
				if changed && (len(got) != 1 || got[0].MemberNumber != pos+1 || got[0].TotalMembers != size) {
					t.Fatalf("VIOLATION C10: self at position %d of %d (in effect %+v): announced %+v, want exactly one announcement %d/%d", pos+1, size, prev, got, pos+1, size)
				}
				if !changed && len(got) != 0 {
					t.Fatalf("VIOLATION C10: numbering %d/%d already in effect was announced again: %+v", pos+1, size, got)
				}
				if len(h.lastActiveInstances) != size {
					t.Fatalf("VIOLATION C10: instance list not remembered (%d of %d)", len(h.lastActiveInstances), size)
				}
			}
		}
		// self missing: fail-stop
		func() {
			defer func() {
				if recover() == nil {
					t.Fatalf("VIOLATION C10: rebalance without self in a list of %d did not fail", size)
				}
			}()
			var list []Instance
			for i := 0; i < size; i++ {
				id := fmt.Sprintf("other-%d", i)
				list = append(list, Instance{ID: &id})
			}
			(&cbMembership{bus: EventBus.New(), id: []byte("self")}).rebalance(list)
		}()
	}
	t.Logf("fallback C10 rebalance: %d cases", cases)
}
