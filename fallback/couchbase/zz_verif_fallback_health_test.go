package couchbase

// Fallback decider (bounded, properties C19 / C13): the real health checker against a scripted Ping.
// Scenarios: five failed pings in one round terminate (performHealthCheck panics after exactly 5 pings);
// F F S ends the round after 3 pings without consequence and the next round starts from zero; a cancelled context
// during the retry wait returns without a further ping; Start/Stop: ticks ping, Stop returns within 2 s also in the
// middle of a retry wait, no ping after Stop returned, repeated Start / Stop are harmless. (~9 s: the 1 s retry
// wait is hard coded.)

import (
	"context"
	"errors"
	"os"
	"os/exec"
	"sync"
	"testing"
	"time"

	"github.com/Trendyol/go-dcp/config"
	"github.com/Trendyol/go-dcp/logger"
	"github.com/Trendyol/go-dcp/models"
)

type vfPingClient struct {
	Client
	mu     sync.Mutex
	script []error // result of the k-th ping; the last entry repeats
	pings  int
}

func (c *vfPingClient) Ping() (*models.PingResult, error) {
	c.mu.Lock()
	defer c.mu.Unlock()
	k := c.pings
	c.pings++
	if k >= len(c.script) {
		k = len(c.script) - 1
	}
	return &models.PingResult{}, c.script[k]
}

func (c *vfPingClient) count() int { c.mu.Lock(); defer c.mu.Unlock(); return c.pings }

func TestVerifFallbackHealthCheck(t *testing.T) {
	if logger.Log == nil {
		logger.InitDefaultLogger("error")
	}
	bad := errors.New("ping failed")
	// 1. F F S then the next round F F F F F
	cl := &vfPingClient{script: []error{bad, bad, nil, bad, bad, bad, bad, bad}}
	h := &healthCheck{config: &config.HealthCheck{Interval: time.Hour}, client: cl}
	h.performHealthCheck(context.Background())
	if cl.count() != 3 {
		t.Fatalf("VIOLATION C19: round F F S issued %d pings, want 3 (a success ends the round)", cl.count())
	}
	died := func() (p bool) {
		defer func() { p = recover() != nil }()
		h.performHealthCheck(context.Background())
		return
	}()
	if !died || cl.count() != 8 {
		t.Fatalf("VIOLATION C19: five consecutive failures in one round: terminated=%v after %d pings in that round (want termination after exactly 5)", died, cl.count()-3)
	}
	// 2. four failures then success: no consequence
	cl = &vfPingClient{script: []error{bad, bad, bad, bad, nil}}
	h = &healthCheck{config: &config.HealthCheck{Interval: time.Hour}, client: cl}
	func() {
		defer func() {
			if recover() != nil {
				t.Fatalf("VIOLATION C19: F F F F S terminated the process")
			}
		}()
		h.performHealthCheck(context.Background())
	}()
	if cl.count() != 5 {
		t.Fatalf("VIOLATION C19: round F F F F S issued %d pings, want 5", cl.count())
	}
	// 3. cancellation during the retry wait
	cl = &vfPingClient{script: []error{bad}}
	h = &healthCheck{config: &config.HealthCheck{Interval: time.Hour}, client: cl}
	ctx, cancel := context.WithCancel(context.Background())
	go func() { time.Sleep(300 * time.Millisecond); cancel() }()
	start := time.Now()
	h.performHealthCheck(ctx)
	if time.Since(start) > 900*time.Millisecond || cl.count() != 1 {
		t.Fatalf("VIOLATION C19: cancellation during the retry wait: returned after %v with %d pings (want at once, 1 ping)", time.Since(start), cl.count())
	}
	// 4. Start / Stop
	cl = &vfPingClient{script: []error{nil, nil, bad}}
	hc := NewHealthCheck(&config.HealthCheck{Interval: 50 * time.Millisecond}, cl)
	hc.Start()
	hc.Start()
	time.Sleep(400 * time.Millisecond) // two good rounds, then a failing round that sits in its retry wait
	if cl.count() < 3 {
		t.Fatalf("VIOLATION C19: started health checker issued %d pings in 400 ms (interval 50 ms)", cl.count())
	}
	done := make(chan struct{})
	go func() { hc.Stop(); hc.Stop(); close(done) }()
	select {
	case <-done:
	case <-time.After(2 * time.Second):
		t.Fatalf("VIOLATION C19: Stop did not return within 2 s while a round was in its retry wait")
	}
	n := cl.count()
	time.Sleep(1300 * time.Millisecond)
	if cl.count() != n {
		t.Fatalf("VIOLATION C19: %d pings were issued after Stop had returned", cl.count()-n)
	}
}

// Child scenario (the termination happens on the checker's own goroutine and ends the process): a started health
// checker whose pings always fail must terminate the process, whatever the configured interval and timeout.
func TestVerifFallbackHealthChild(t *testing.T) {
	if os.Getenv("VERIF_CHILD") != "health-always-failing" {
		t.Skip("helper of the fallback deciders")
	}
	if logger.Log == nil {
		logger.InitDefaultLogger("error")
	}
	cl := &vfPingClient{script: []error{errors.New("ping failed")}}
	hc := NewHealthCheck(&config.HealthCheck{Interval: 20 * time.Millisecond, Timeout: 1500 * time.Millisecond}, cl)
	hc.Start()
	time.Sleep(9 * time.Second)
	t.Logf("still alive after %d failed pings", cl.count())
}

func TestVerifFallbackHealthFailStop(t *testing.T) {
	cmd := exec.Command(os.Args[0], "-test.run=^TestVerifFallbackHealthChild$", "-test.v")
	cmd.Env = append(os.Environ(), "VERIF_CHILD=health-always-failing")
	start := time.Now()
	out, err := cmd.CombinedOutput()
	if err == nil {
		t.Fatalf("VIOLATION C19: a health checker whose pings always fail (timeout 1.5 s) did not terminate the process within 9 s: %.300s", out)
	}
	if d := time.Since(start); d < 3*time.Second {
		t.Fatalf("VIOLATION C19: the process was terminated after %v, before five consecutive failed pings (4 retry waits of 1 s) could have happened", d)
	}
}
