package couchbase

// Fallback decider (bounded, properties C02 / C06 / C08 / C20): the real client.OpenStream, its rollback branch and
// GetFailOverLogs against a scripted DCP agent. Bound: 200 pseudo-random resume positions x server behaviour
// {accepts, answers with an error, demands a rollback to R (failover logs of length 1..3)} x collections
// {unsupported, supported without / with filter}.
// Oracle: the stream request carries exactly the persisted (vbUUID, seqNo, end, snapshot start, snapshot end) and the
// collection filter; success sets the observer's vbUUID from the server's failover log; an error is returned as it is;
// a rollback re-requests at R with snapshot [R,R], the same end, on the newest branch whose start <= R, and sets the
// catch-up position to the checkpointed seqNo.

import (
	"errors"
	"math/rand"
	"sort"
	"testing"

	"github.com/couchbase/gocbcore/v10"
	"github.com/couchbase/gocbcore/v10/memd"

	"github.com/Trendyol/go-dcp/config"
	"github.com/Trendyol/go-dcp/logger"
	"github.com/Trendyol/go-dcp/models"
)

func TestVerifFallbackOpenStream(t *testing.T) {
	if logger.Log == nil {
		logger.InitDefaultLogger("error")
	}
	type req struct {
		vb                       uint16
		flags                    memd.DcpStreamAddFlag
		uuid                     gocbcore.VbUUID
		start, end, snapS, snapE gocbcore.SeqNo
		filter                   []uint32
		manifest                 bool
	}
	var got []req
	setInCallback := make(chan bool, 8)
	var behaviour string
	var rollbackTo gocbcore.SeqNo
	var flog []gocbcore.FailoverEntry
	errServer := errors.New("not my vbucket")
	collections := false
	gocbcore.VerifHasCollectionsSupport = func() bool { return collections }
	gocbcore.VerifGetFailoverLog = func(vbID uint16, cb gocbcore.GetFailoverLogCallback) (gocbcore.PendingOp, error) {
		go cb(flog, nil)
		return verifC08Op{}, nil
	}
	gocbcore.VerifOpenStream = func(vbID uint16, flags memd.DcpStreamAddFlag, vbUUID gocbcore.VbUUID, startSeqNo, endSeqNo, snapStartSeqNo, snapEndSeqNo gocbcore.SeqNo, evtHandler gocbcore.StreamObserver, opts gocbcore.OpenStreamOptions, cb gocbcore.OpenStreamCallback) (gocbcore.PendingOp, error) {
		r := req{vb: vbID, flags: flags, uuid: vbUUID, start: startSeqNo, end: endSeqNo, snapS: snapStartSeqNo, snapE: snapEndSeqNo, manifest: opts.ManifestOptions != nil}
		if opts.FilterOptions != nil {
			r.filter = append([]uint32(nil), opts.FilterOptions.CollectionIDs...)
			sort.Slice(r.filter, func(i, j int) bool { return r.filter[i] < r.filter[j] })
		}
		got = append(got, r)
		first := len(got) == 1
		go func() {
			switch {
			case behaviour == "error":
				cb(nil, errServer)
			case behaviour == "rollback" && first:
				cb(nil, gocbcore.DCPRollbackError{SeqNo: rollbackTo})
			default:
				cb([]gocbcore.FailoverEntry{{VbUUID: 4242, SeqNo: 0}}, nil)
				// the reader goroutine dispatches the stream's first events right after the callback returns:
				// the observer must know the branch by then
				if o, ok := evtHandler.(*observer); ok {
					setInCallback <- o.vbUUID == 4242
				}
			}
		}()
		return verifC08Op{}, nil
	}
	defer func() {
		gocbcore.VerifHasCollectionsSupport, gocbcore.VerifGetFailoverLog, gocbcore.VerifOpenStream = nil, nil, nil
	}()
	c := &client{dcpAgent: &gocbcore.DCPAgent{}, config: &config.Dcp{}}
	r := rand.New(rand.NewSource(99))
	for it := 0; it < 200; it++ {
		behaviour = []string{"ok", "error", "rollback"}[it%3]
		collections = it%4 >= 2
		ids := map[uint32]string{}
		if it%4 == 3 {
			ids = map[uint32]string{8: "a", 9: "b", 12: "c"}
		}
		seq := r.Uint64() >> uint(r.Intn(60))
		off := &models.Offset{SnapshotMarker: &models.SnapshotMarker{StartSeqNo: seq / 2, EndSeqNo: seq + uint64(r.Intn(100))}, VbUUID: gocbcore.VbUUID(r.Uint64()), SeqNo: seq, LatestSeqNo: seq + uint64(r.Intn(1000))}
		vb := uint16(r.Intn(1024))
		rollbackTo = gocbcore.SeqNo(seq / 3)
		flog = nil
		for k := 0; k < 1+r.Intn(3); k++ { // newest first
			start := []uint64{(uint64(rollbackTo) + seq) / 2, uint64(rollbackTo) / 2, 0}[k] // the newest branch may start between R and the checkpoint
			flog = append(flog, gocbcore.FailoverEntry{VbUUID: gocbcore.VbUUID(1000 + k), SeqNo: gocbcore.SeqNo(start)})
		}
		got = nil
		obs := &observer{vbID: vb, config: &config.Dcp{}}
		err := c.OpenStream(vb, ids, off, obs)
		if len(got) == 0 {
			t.Fatalf("VIOLATION C02: no stream request was issued")
		}
		want := req{vb: vb, flags: 0x80, uuid: off.VbUUID, start: gocbcore.SeqNo(off.SeqNo), end: gocbcore.SeqNo(off.LatestSeqNo), snapS: gocbcore.SeqNo(off.StartSeqNo), snapE: gocbcore.SeqNo(off.EndSeqNo), manifest: collections}
		if collections && len(ids) > 0 {
			want.filter = []uint32{8, 9, 12}
		}
		g := got[0]
		if g.vb != want.vb || g.flags != want.flags || g.uuid != want.uuid || g.start != want.start || g.end != want.end || g.snapS != want.snapS || g.snapE != want.snapE || g.manifest != want.manifest || len(g.filter) != len(want.filter) {
			t.Fatalf("VIOLATION C02: persisted position %+v/%+v of vb %d was requested as %+v, want %+v", off, off.SnapshotMarker, vb, g, want)
		}
		switch behaviour {
		case "ok":
			if inCb := <-setInCallback; !inCb {
				t.Fatalf("VIOLATION C06: the observer's vbUUID was not yet set when the open-stream callback returned (events dispatched next would carry the old branch)")
			}
			if err != nil || len(got) != 1 || obs.vbUUID != 4242 {
				t.Fatalf("VIOLATION C06: accepted stream: err=%v requests=%d observer vbUUID=%d (want the server's 4242)", err, len(got), obs.vbUUID)
			}
		case "error":
			if err != errServer || len(got) != 1 {
				t.Fatalf("VIOLATION C20: server answered %v, OpenStream returned %v after %d requests", errServer, err, len(got))
			}
		case "rollback":
			var branch gocbcore.VbUUID
			for _, e := range flog {
				if e.SeqNo <= rollbackTo {
					branch = e.VbUUID
					break
				}
			}
			if err != nil || len(got) != 2 || got[1].start != rollbackTo || got[1].snapS != rollbackTo || got[1].snapE != rollbackTo || got[1].end != want.end || got[1].uuid != branch || got[1].vb != vb {
				t.Fatalf("VIOLATION C08: rollback to %d (failover log %v): second request %+v err=%v, want start=%d snapshot=[%d,%d] end=%d vbUUID=%d", rollbackTo, flog, got[1:], err, rollbackTo, rollbackTo, rollbackTo, want.end, branch)
			}
			if inCb := <-setInCallback; !inCb {
				t.Fatalf("VIOLATION C06: after a rollback the observer's vbUUID was not yet set when the callback returned")
			}
			if obs.vbUUID != 4242 || !obs.isCatchupNeed || obs.catchupSeqNo != off.SeqNo {
				t.Fatalf("VIOLATION C08: after the rollback the observer has vbUUID=%d catch-up=%v/%d, want the new branch 4242 and catch-up to the checkpointed %d", obs.vbUUID, obs.isCatchupNeed, obs.catchupSeqNo, off.SeqNo)
			}
		}
	}
	// failover log passthrough
	flog = []gocbcore.FailoverEntry{{VbUUID: 7, SeqNo: 9}, {VbUUID: 3, SeqNo: 0}}
	if l, err := c.GetFailOverLogs(5); err != nil || len(l) != 2 || l[0] != flog[0] || l[1] != flog[1] {
		t.Fatalf("VIOLATION C20: GetFailOverLogs returned %v, %v for the server's %v", l, err, flog)
	}
}
