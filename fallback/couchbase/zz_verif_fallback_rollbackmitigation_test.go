package couchbase

// Fallback decider (bounded, property C07): the real reset / markAbsentInstances / observe (with its completion
// callback) / observeVbID of the rollback mitigation, on scripted cluster maps and scripted answers of the copies.
// Oracle from the property: the minimum is taken over every copy the cluster map has (active + replicas), a copy is
// left out only when the map has no such replica or no server for it, a report is recorded for the copy that was
// asked and the minimum over all copies is announced, once, only when the report changes what is known.
// Bound: 0..3 replicas x 3 vBuckets x 4 map scripts x 60 pseudo-random report sequences of 12 reports.

import (
	"errors"
	"math/rand"
	"sync"
	"sync/atomic"
	"testing"

	"github.com/Trendyol/go-dcp/config"
	"github.com/Trendyol/go-dcp/logger"
	"github.com/Trendyol/go-dcp/models"
	"github.com/Trendyol/go-dcp/wrapper"
	"github.com/couchbase/gocbcore/v10"
)

type vfRmClient struct {
	Client
	agent *gocbcore.Agent
}

func (c *vfRmClient) GetAgent() *gocbcore.Agent { return c.agent }

func TestVerifFallbackRollbackMitigation(t *testing.T) {
	if logger.Log == nil {
		logger.InitDefaultLogger("error")
	}
	defer func() {
		gocbcore.VerifNumReplicas, gocbcore.VerifVbucketToServer, gocbcore.VerifObserveVb = nil, nil, nil
	}()
	r0 := rand.New(rand.NewSource(7))
	cases := 0
	for replicas := 0; replicas <= 3; replicas++ {
		for script := 0; script < 4; script++ {
			for it := 0; it < 15; it++ {
				cases++
				vbIds := []uint16{3, 4, 700}
				var announced []models.PersistSeqNo
				r := &rollbackMitigation{
					client:         &vfRmClient{agent: &gocbcore.Agent{}},
					config:         &config.Dcp{},
					vbIds:          vbIds,
					observeCount:   &atomic.Uint32{},
					configSnapshot: &gocbcore.ConfigSnapshot{},
					vbUUIDMap:      wrapper.CreateConcurrentSwissMap[uint16, gocbcore.VbUUID](8),
					persistSeqNoDispatcher: func(p *models.PersistSeqNo) {
						announced = append(announced, *p)
					},
					activeGroupID: 5,
				}
				nrep := replicas
				gocbcore.VerifNumReplicas = func() (int, error) { return nrep, nil }
				r.reset()
				if int(r.observeCount.Load()) != len(vbIds)*(replicas+1) {
					t.Fatalf("VIOLATION C07: reset expects %d reports for %d vBuckets x %d copies", r.observeCount.Load(), len(vbIds), replicas+1)
				}
				seen := map[*vbUUIDAndSeqNo]bool{}
				for _, vb := range vbIds {
					reps, ok := r.persistedSeqNos.Load(vb)
					if !ok || len(reps) != replicas+1 {
						t.Fatalf("VIOLATION C07: after reset vb %d has %d entries, want one per copy (%d)", vb, len(reps), replicas+1)
					}
					for j, e := range reps {
						if e == nil || e.absent || e.seqNo != 0 || e.vbUUID != 0 || seen[e] {
							t.Fatalf("VIOLATION C07: after reset vb %d copy %d is %+v (shared=%v), want a fresh present entry at zero", vb, j, e, seen[e])
						}
						seen[e] = true
					}
				}
				// which copies the cluster map lacks
				lacks := func(vb uint16, idx uint32) (bool, bool) { // (invalid replica, no server)
					switch script {
					case 1:
						return idx == uint32(replicas) && replicas > 0, false
					case 2:
						return false, idx == 1
					case 3:
						return vb == 4 && idx >= 1, vb == 700 && idx == 0
					}
					return false, false
				}
				gocbcore.VerifVbucketToServer = func(vb uint16, idx uint32) (int, error) {
					inv, nos := lacks(vb, idx)
					if inv {
						return 0, gocbcore.ErrInvalidReplica
					}
					if nos {
						return -1, nil
					}
					return int(idx), nil
				}
				if err := r.markAbsentInstances(); err != nil {
					t.Fatalf("markAbsentInstances: %v", err)
				}
				for _, vb := range vbIds {
					reps, _ := r.persistedSeqNos.Load(vb)
					for j, e := range reps {
						inv, nos := lacks(vb, uint32(j))
						if e.absent != (inv || nos) {
							t.Fatalf("VIOLATION C07: vb %d copy %d absent=%v, the cluster map says invalid-replica=%v no-server=%v", vb, j, e.absent, inv, nos)
						}
					}
				}
				// a map error other than "invalid replica" is reported, not swallowed
				if it == 0 {
					boom := errors.New("map unavailable")
					saved := gocbcore.VerifVbucketToServer
					gocbcore.VerifVbucketToServer = func(uint16, uint32) (int, error) { return 0, boom }
					if err := r.markAbsentInstances(); !errors.Is(err, boom) {
						t.Fatalf("VIOLATION C07: a cluster-map error is swallowed by markAbsentInstances (err=%v)", err)
					}
					gocbcore.VerifVbucketToServer = saved
				}
				// reports
				oracle := func(vb uint16) gocbcore.SeqNo {
					reps, _ := r.persistedSeqNos.Load(vb)
					first := true
					var uuid gocbcore.VbUUID
					var min gocbcore.SeqNo
					for _, e := range reps {
						if e.absent {
							continue
						}
						if first {
							first, uuid, min = false, e.vbUUID, e.seqNo
							continue
						}
						if e.vbUUID != uuid {
							return 0
						}
						if e.seqNo < min {
							min = e.seqNo
						}
					}
					if first {
						return 0
					}
					return min
				}
				for step := 0; step < 12; step++ {
					vb := vbIds[r0.Intn(len(vbIds))]
					idx := r0.Intn(replicas + 1)
					asked := gocbcore.VbUUID(1 + r0.Intn(2))
					var gotOpts gocbcore.ObserveVbOptions
					var cb gocbcore.ObserveVbCallback
					syncErr := error(nil)
					mode := r0.Intn(8) // 0..4 answer, 5 stale round, 6 temporary failure, 7 request cannot be sent (temporary failure)
					if mode == 7 {
						syncErr = gocbcore.ErrTemporaryFailure
					}
					gocbcore.VerifObserveVb = func(o gocbcore.ObserveVbOptions, c gocbcore.ObserveVbCallback) (gocbcore.PendingOp, error) {
						gotOpts, cb = o, c
						return nil, syncErr
					}
					wg := &sync.WaitGroup{}
					wg.Add(1)
					group := r.activeGroupID
					if mode == 5 {
						group = r.activeGroupID - 1
					}
					reps, _ := r.persistedSeqNos.Load(vb)
					before := make([]vbUUIDAndSeqNo, len(reps))
					for j, e := range reps {
						before[j] = *e
					}
					announced = nil
					r.observe(vb, idx, group, asked, wg)
					if gotOpts.VbID != vb || gotOpts.ReplicaIdx != idx || gotOpts.VbUUID != asked || gotOpts.Deadline.IsZero() {
						t.Fatalf("VIOLATION C07: asked for vb %d copy %d vbUUID %d, the request names vb %d copy %d vbUUID %d (deadline zero=%v)", vb, idx, asked, gotOpts.VbID, gotOpts.ReplicaIdx, gotOpts.VbUUID, gotOpts.Deadline.IsZero())
					}
					res := &gocbcore.ObserveVbResult{VbID: vb, VbUUID: gocbcore.VbUUID(1 + r0.Intn(2)), PersistSeqNo: gocbcore.SeqNo(r0.Intn(4)), CurrentSeqNo: gocbcore.SeqNo(10 + r0.Intn(4))}
					switch mode {
					case 6:
						cb(nil, gocbcore.ErrTemporaryFailure)
					case 7:
						// observeVbID has answered through the callback itself
					default:
						cb(res, nil)
					}
					done := make(chan struct{})
					go func() { wg.Wait(); close(done) }()
					<-done
					changed := mode <= 4 && !before[idx].absent && (before[idx].vbUUID != res.VbUUID || before[idx].seqNo != res.PersistSeqNo)
					for j, e := range reps {
						want := before[j]
						if changed && j == idx {
							want.seqNo, want.vbUUID = res.PersistSeqNo, res.VbUUID
						}
						if *e != want {
							t.Fatalf("VIOLATION C07: report %+v for vb %d copy %d (mode %d): copy %d is now %+v, want %+v", res, vb, idx, mode, j, *e, want)
						}
					}
					if changed {
						if len(announced) != 1 || announced[0].VbID != vb || announced[0].SeqNo != oracle(vb) {
							t.Fatalf("VIOLATION C07: after report %+v for vb %d copy %d the announcement is %+v, want exactly one of vb %d seqNo %d (minimum over every present copy)", res, vb, idx, announced, vb, oracle(vb))
						}
					} else if len(announced) != 0 {
						t.Fatalf("VIOLATION C07: nothing new for vb %d copy %d (mode %d), yet announced %+v", vb, idx, mode, announced)
					}
				}
			}
		}
	}
	t.Logf("fallback C07 rollback mitigation: %d configurations", cases)
}
