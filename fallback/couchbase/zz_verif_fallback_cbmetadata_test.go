package couchbase

// Fallback decider (bounded, properties C01 / C02 / C05 / C14): the real Couchbase metadata backend (Save, Load,
// saveVBucketCheckpoint, getCheckpointID) against an in-memory xattr store behind the scripted gocbcore.Agent.
// Bound: 120 pseudo-random states of 1..6 vBuckets (three of them with 300 vBuckets) with a random dirty subset, field values over the full uint64
// range, documents missing in the store (create-then-upsert), a store that rejects one key; two group names.
// Oracle: a save writes exactly the dirty vBuckets, each under its own key "_connector:cbgo:<group>:checkpoint:<vb>",
// with every field intact (Load after Save returns the saved document); clean vBuckets are not touched; a rejected
// write surfaces as the error of Save; keys of different groups / vBuckets never collide.

import (
	"errors"
	"fmt"
	"math/rand"
	"sync"
	"testing"
	"time"

	"github.com/couchbase/gocbcore/v10"
	"github.com/couchbase/gocbcore/v10/memd"

	"github.com/Trendyol/go-dcp/config"
	"github.com/Trendyol/go-dcp/logger"
	"github.com/Trendyol/go-dcp/models"
)

type vfMetaClient struct {
	Client
	agent *gocbcore.Agent
}

func (c *vfMetaClient) GetMetaAgent() *gocbcore.Agent { return c.agent }

func TestVerifFallbackCBMetadata(t *testing.T) {
	if logger.Log == nil {
		logger.InitDefaultLogger("error")
	}
	var mu sync.Mutex
	docs := map[string]bool{}    // documents that exist
	xattr := map[string][]byte{} // key -> checkpoint xattr
	writes := map[string]int{}
	reject := ""
	errReject := errors.New("write rejected")
	notFound := &gocbcore.KeyValueError{StatusCode: memd.StatusKeyNotFound}
	gocbcore.VerifMutateIn = func(o gocbcore.MutateInOptions, cb gocbcore.MutateInCallback) (gocbcore.PendingOp, error) {
		mu.Lock()
		k := string(o.Key)
		var err error
		switch {
		case k == reject:
			err = errReject
		case !docs[k]:
			err = notFound
		default:
			xattr[k] = append([]byte(nil), o.Ops[0].Value...)
			writes[k]++
		}
		mu.Unlock()
		go func() {
			if err != nil {
				cb(nil, err)
			} else {
				cb(&gocbcore.MutateInResult{}, nil)
			}
		}()
		return &vfPending{}, nil
	}
	gocbcore.VerifSet = func(o gocbcore.SetOptions, cb gocbcore.StoreCallback) (gocbcore.PendingOp, error) {
		mu.Lock()
		docs[string(o.Key)] = true
		mu.Unlock()
		go cb(&gocbcore.StoreResult{}, nil)
		return &vfPending{}, nil
	}
	gocbcore.VerifLookupIn = func(o gocbcore.LookupInOptions, cb gocbcore.LookupInCallback) (gocbcore.PendingOp, error) {
		mu.Lock()
		v, ok := xattr[string(o.Key)]
		mu.Unlock()
		go func() {
			if !ok {
				cb(nil, notFound)
			} else {
				cb(&gocbcore.LookupInResult{Ops: []gocbcore.SubDocResult{{Value: v}}}, nil)
			}
		}()
		return &vfPending{}, nil
	}
	defer func() { gocbcore.VerifMutateIn, gocbcore.VerifSet, gocbcore.VerifLookupIn = nil, nil, nil }()
	r := rand.New(rand.NewSource(5))
	for it := 0; it < 120; it++ {
		group := []string{"g1", "orders"}[it%2]
		cfg := &config.Dcp{}
		cfg.Dcp.Group.Name = group
		cfg.Checkpoint.Timeout = 2 * time.Second
		md := &cbMetadata{client: &vfMetaClient{agent: &gocbcore.Agent{}}, config: cfg, scopeName: "_default", collectionName: "_default"}
		mu.Lock()
		before := map[string]string{}
		for k, v := range xattr {
			before[k] = string(v)
		}
		writes = map[string]int{}
		reject = ""
		mu.Unlock()
		n := 1 + r.Intn(6)
		if it%40 == 0 {
			n = 300 // a full-size assignment: every write must still happen
		}
		state := map[uint16]*models.CheckpointDocument{}
		dirty := map[uint16]bool{}
		var ids []uint16
		for len(state) < n {
			vb := uint16(r.Intn(1024))
			if state[vb] != nil {
				continue
			}
			ids = append(ids, vb)
			state[vb] = &models.CheckpointDocument{BucketUUID: "b", Checkpoint: &models.CheckpointDocumentCheckpoint{VbUUID: r.Uint64(), SeqNo: r.Uint64(), Snapshot: &models.CheckpointDocumentSnapshot{StartSeqNo: r.Uint64(), EndSeqNo: r.Uint64()}}}
			if r.Intn(3) != 0 {
				dirty[vb] = true
			}
		}
		rejected := uint16(0)
		if it%10 == 9 && len(dirty) > 0 {
			for vb := range dirty {
				rejected = vb
			}
			reject = fmt.Sprintf("_connector:cbgo:%s:checkpoint:%d", group, rejected)
		}
		err := md.Save(state, dirty, "b")
		if reject != "" {
			if err == nil {
				t.Fatalf("VIOLATION C05: the store rejected the checkpoint of vb %d but Save reported success", rejected)
			}
			continue
		}
		if err != nil {
			t.Fatalf("VIOLATION C05: Save failed against a healthy store: %v", err)
		}
		mu.Lock()
		for vb := range state {
			k := fmt.Sprintf("_connector:cbgo:%s:checkpoint:%d", group, vb)
			if dirty[vb] && writes[k] != 1 {
				t.Fatalf("VIOLATION C05: dirty vb %d: %d writes under its key %q (all writes: %v)", vb, writes[k], k, writes)
			}
			if !dirty[vb] && (writes[k] != 0 || string(xattr[k]) != before[k]) {
				t.Fatalf("VIOLATION C05: clean vb %d was written", vb)
			}
		}
		total := 0
		for _, c := range writes {
			total += c
		}
		if total != len(dirty) {
			t.Fatalf("VIOLATION C14: %d dirty vBuckets, %d writes: %v", len(dirty), total, writes)
		}
		mu.Unlock()
		got, _, err := md.Load(ids, "b")
		if err != nil {
			t.Fatalf("load: %v", err)
		}
		for vb, want := range state {
			if !dirty[vb] {
				continue
			}
			d, ok := got.Load(vb)
			if !ok || d == nil || d.Checkpoint == nil || d.Checkpoint.Snapshot == nil || *d.Checkpoint.Snapshot != *want.Checkpoint.Snapshot || d.Checkpoint.SeqNo != want.Checkpoint.SeqNo || d.Checkpoint.VbUUID != want.Checkpoint.VbUUID {
				t.Fatalf("VIOLATION C02: vb %d saved as %+v/%+v re-loads as %+v", vb, want.Checkpoint, want.Checkpoint.Snapshot, d)
			}
		}
	}
}
