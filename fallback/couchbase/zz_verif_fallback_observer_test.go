package couchbase

// Fallback decider (bounded, properties C03 / C06 / C07 / C08 / C13 / C16): the real per-vBucket observer fed with
// pseudo-random server histories. Bound: 300 histories (fixed seed) of 10..80 events: snapshot markers, document
// events inside the announced snapshot, system events, seqno-advanced; with / without a skip window; with / without a
// catch-up position (after a rollback); with rollback mitigation off, or on with the persisted seqno raised by a
// helper goroutine; a vbUUID change mid-history; Close at a random point; stream end before / after CloseEnd.
// Oracle: every document event at or above the skip window, above the catch-up position and before Close reaches the
// listener exactly once, in order, with its own seqNo, key and kind; each carries the vbUUID in effect and the snapshot
// announced for it (start <= seqNo <= end), and that offset object is never modified afterwards; nothing is forwarded
// before its seqNo is persisted (mitigation on) or after Close; a document event outside the announced snapshot is
// fatal; the per-kind counters equal the numbers forwarded; the end listener fires once unless CloseEnd came first.

import (
	"fmt"
	"math/rand"
	"sync"
	"testing"
	"time"

	"github.com/couchbase/gocbcore/v10"

	"github.com/Trendyol/go-dcp/config"
	"github.com/Trendyol/go-dcp/logger"
	"github.com/Trendyol/go-dcp/models"
	"github.com/Trendyol/go-dcp/tracing"
)

func TestVerifFallbackObserverHistories(t *testing.T) {
	if logger.Log == nil {
		logger.InitDefaultLogger("error")
	}
	r := rand.New(rand.NewSource(3))
	for it := 0; it < 300; it++ {
		cfg := &config.Dcp{}
		cfg.RollbackMitigation.Disabled = it%3 != 0
		cfg.RollbackMitigation.Interval = 5 * time.Millisecond
		skipping := it%5 == 1
		var skipUntil time.Time
		if skipping {
			skipUntil = time.Unix(5000, 0)
			cfg.Dcp.Listener.SkipUntil = &skipUntil
		}
		type fwd struct {
			kind      string
			seq       uint64
			key       string
			off       *models.Offset
			snap      models.SnapshotMarker
			persisted gocbcore.SeqNo
			closed    bool
		}
		var mu sync.Mutex
		var got []fwd
		var obs *observer
		ends := 0
		listener := func(a models.ListenerArgs) {
			mu.Lock()
			defer mu.Unlock()
			f := fwd{persisted: obs.persistSeqNo, closed: obs.closed}
			switch e := a.Event.(type) {
			case models.InternalDcpMutation:
				f.kind, f.seq, f.key, f.off = "mutation", e.SeqNo, string(e.Key), e.Offset
			case models.InternalDcpDeletion:
				f.kind, f.seq, f.key, f.off = "deletion", e.SeqNo, string(e.Key), e.Offset
			case models.InternalDcpExpiration:
				f.kind, f.seq, f.key, f.off = "expiration", e.SeqNo, string(e.Key), e.Offset
			case models.InternalDcpSeqNoAdvance:
				f.kind, f.seq, f.off = "advance", e.SeqNo, e.Offset
			case models.InternalDcpCollectionCreation:
				f.kind, f.seq, f.off = "system", e.SeqNo, e.Offset
			case models.InternalDcpScopeCreation:
				f.kind, f.seq, f.off = "system", e.SeqNo, e.Offset
			case models.DcpSnapshotMarker:
				return
			default:
				t.Fatalf("VIOLATION C03: listener received an unexpected %T", a.Event)
			}
			if f.off == nil || f.off.SnapshotMarker == nil {
				t.Fatalf("VIOLATION C06: %s event at %d forwarded without a resume position", f.kind, f.seq)
			}
			f.snap = *f.off.SnapshotMarker
			got = append(got, f)
		}
		obs = NewObserver(cfg, 9, 1<<40, listener, func(models.DcpStreamEndContext) { ends++ }, map[uint32]string{}, tracing.NewTracerComponent()).(*observer)
		obs.SetVbUUID(100)
		catchup := uint64(0)
		if it%4 == 2 {
			catchup = uint64(5 + r.Intn(20))
			obs.SetCatchup(gocbcore.SeqNo(catchup))
		}
		// persistence helper: with mitigation on, the persisted seqno follows the stream with a small delay
		stop := make(chan struct{})
		var highest uint64
		var hmu sync.Mutex
		if !cfg.RollbackMitigation.Disabled {
			go func() {
				for {
					select {
					case <-stop:
						return
					case <-time.After(time.Millisecond):
						hmu.Lock()
						h := highest
						hmu.Unlock()
						obs.SetPersistSeqNo(gocbcore.SeqNo(h))
					}
				}
			}()
		}
		type exp struct {
			kind string
			seq  uint64
			key  string
			uuid gocbcore.VbUUID
			s, e uint64
		}
		var want []exp
		counts := map[string]float64{}
		seq := uint64(1)
		snapS, snapE := uint64(0), uint64(0)
		have := false
		uuid := gocbcore.VbUUID(100)
		steps := 10 + r.Intn(71)
		closeAt := -1
		if it%6 == 4 {
			closeAt = r.Intn(steps)
		}
		closed := false
		for k := 0; k < steps; k++ {
			if k == closeAt {
				obs.Close()
				closed = true
			}
			if r.Intn(30) == 0 {
				uuid++
				obs.SetVbUUID(uuid) // re-open on another branch
			}
			if !have || seq > snapE || r.Intn(12) == 0 {
				snapS, snapE = seq, seq+uint64(r.Intn(6))
				have = true
				hmu.Lock()
				highest = snapE + 2
				hmu.Unlock()
				obs.SnapshotMarker(models.DcpSnapshotMarker{StartSeqNo: snapS, EndSeqNo: snapE, VbID: 9})
				continue
			}
			cas := uint64(4000+r.Intn(2000)) * 1000000000
			key := fmt.Sprintf("k%d", seq)
			kind := r.Intn(6)
			deliver := !closed && !(catchup > 0 && seq <= catchup)
			isDoc := kind <= 2
			if isDoc && skipping && cas/1000000000 < 5000 {
				deliver = false
			}
			switch kind {
			case 0:
				obs.Mutation(gocbcore.DcpMutation{SeqNo: seq, Cas: cas, Key: []byte(key), VbID: 9})
			case 1:
				obs.Deletion(gocbcore.DcpDeletion{SeqNo: seq, Cas: cas, Key: []byte(key), VbID: 9})
			case 2:
				obs.Expiration(gocbcore.DcpExpiration{SeqNo: seq, Cas: cas, Key: []byte(key), VbID: 9})
			case 3:
				obs.CreateCollection(gocbcore.DcpCollectionCreation{SeqNo: seq, VbID: 9})
			case 4:
				obs.CreateScope(gocbcore.DcpScopeCreation{SeqNo: seq, VbID: 9})
			case 5:
				// seqno-advanced: a control event (not subject to catch-up); it becomes its own snapshot [seq,seq]
				obs.SeqNoAdvanced(gocbcore.DcpSeqNoAdvanced{SeqNo: seq, VbID: 9})
				if !closed {
					want = append(want, exp{"advance", seq, "", uuid, seq, seq})
				}
				snapS, snapE = seq, seq
				seq++
				continue
			}
			if deliver {
				name := []string{"mutation", "deletion", "expiration", "system", "system"}[kind]
				k := key
				if !isDoc {
					k = ""
				}
				want = append(want, exp{name, seq, k, uuid, snapS, snapE})
				if isDoc {
					counts[name]++
				}
			}
			seq++
		}
		close(stop)
		// stream end
		if it%2 == 0 {
			obs.CloseEnd()
		}
		obs.End(models.DcpStreamEnd{VbID: 9}, nil)
		if wantEnds := 1 - (1-it%2)*1; ends != wantEnds {
			t.Fatalf("VIOLATION C12: history %d: end listener fired %d times, want %d (CloseEnd first: %v)", it, ends, wantEnds, it%2 == 0)
		}
		mu.Lock()
		if len(got) != len(want) {
			t.Fatalf("VIOLATION C03: history %d (mitigation off=%v skip=%v catch-up=%d close at %d): %d events forwarded, %d expected\n got: %v\nwant: %v", it, cfg.RollbackMitigation.Disabled, skipping, catchup, closeAt, len(got), len(want), got, want)
		}
		for i, w := range want {
			g := got[i]
			if g.kind != w.kind || g.seq != w.seq || g.key != w.key {
				t.Fatalf("VIOLATION C03: history %d: event %d forwarded as %s/%d/%q, the stream carried %s/%d/%q", it, i, g.kind, g.seq, g.key, w.kind, w.seq, w.key)
			}
			if g.off.SeqNo != w.seq || g.off.VbUUID != w.uuid || g.snap.StartSeqNo != w.s || g.snap.EndSeqNo != w.e || g.off.SeqNo < g.snap.StartSeqNo || g.off.SeqNo > g.snap.EndSeqNo {
				t.Fatalf("VIOLATION C06: history %d: event at %d carries offset {seq %d vbUUID %d snapshot %d..%d}, want {seq %d vbUUID %d snapshot %d..%d}", it, w.seq, g.off.SeqNo, g.off.VbUUID, g.snap.StartSeqNo, g.snap.EndSeqNo, w.seq, w.uuid, w.s, w.e)
			}
			if *g.off.SnapshotMarker != g.snap || g.off.SeqNo != g.seq {
				t.Fatalf("VIOLATION C06: history %d: the offset handed out for the event at %d was modified afterwards: now seq %d snapshot %+v", it, g.seq, g.off.SeqNo, *g.off.SnapshotMarker)
			}
			if !cfg.RollbackMitigation.Disabled && uint64(g.persisted) < g.seq {
				t.Fatalf("VIOLATION C07: history %d: event at %d forwarded while only %d was persisted on every copy", it, g.seq, g.persisted)
			}
			if g.closed {
				t.Fatalf("VIOLATION C13: history %d: event at %d forwarded after Close", it, g.seq)
			}
		}
		m := obs.GetMetrics()
		if m.TotalMutations != counts["mutation"] || m.TotalDeletions != counts["deletion"] || m.TotalExpirations != counts["expiration"] {
			if closeAt < 0 { // after Close the counters still count arrivals; only compared on histories without Close
				t.Fatalf("VIOLATION C16: history %d: counters %+v, forwarded %v", it, *m, counts)
			}
		}
		mu.Unlock()
	}
	// an event waiting for persistence when Close arrives is released and must NOT be delivered
	{
		cfg := &config.Dcp{}
		cfg.RollbackMitigation.Interval = 5 * time.Millisecond
		delivered := 0
		o := NewObserver(cfg, 1, 100, func(a models.ListenerArgs) {
			if _, ok := a.Event.(models.InternalDcpMutation); ok {
				delivered++
			}
		}, func(models.DcpStreamEndContext) {}, nil, tracing.NewTracerComponent()).(*observer)
		o.SetPersistSeqNo(10)
		o.SnapshotMarker(models.DcpSnapshotMarker{StartSeqNo: 10, EndSeqNo: 20})
		done := make(chan struct{})
		go func() { o.Mutation(gocbcore.DcpMutation{SeqNo: 15, Key: []byte("x")}); close(done) }()
		time.Sleep(30 * time.Millisecond)
		o.Close()
		select {
		case <-done:
		case <-time.After(2 * time.Second):
			t.Fatalf("VIOLATION C13: an event waiting for persistence was not released by Close")
		}
		if delivered != 0 {
			t.Fatalf("VIOLATION C13: an event that was waiting for persistence when Close arrived was delivered after Close")
		}
	}
	// events whose CAS has the top bit set are not older than the skip window
	{
		cfg := &config.Dcp{}
		cfg.RollbackMitigation.Disabled = true
		until := time.Unix(5000, 0)
		cfg.Dcp.Listener.SkipUntil = &until
		n := 0
		o := NewObserver(cfg, 1, 100, func(a models.ListenerArgs) {
			if _, ok := a.Event.(models.DcpSnapshotMarker); !ok {
				n++
			}
		}, func(models.DcpStreamEndContext) {}, nil, tracing.NewTracerComponent()).(*observer)
		o.SnapshotMarker(models.DcpSnapshotMarker{StartSeqNo: 1, EndSeqNo: 9})
		big := uint64(1)<<63 + 12345
		o.Mutation(gocbcore.DcpMutation{SeqNo: 1, Cas: big, Key: []byte("a")})
		o.Deletion(gocbcore.DcpDeletion{SeqNo: 2, Cas: big, Key: []byte("b")})
		o.Expiration(gocbcore.DcpExpiration{SeqNo: 3, Cas: big, Key: []byte("c")})
		if n != 3 {
			t.Fatalf("VIOLATION C03: %d of 3 events with a CAS above 2^63 (far after the skip window) were delivered", n)
		}
	}
	// a document event outside the announced snapshot is fatal
	cfg := &config.Dcp{}
	cfg.RollbackMitigation.Disabled = true
	o := NewObserver(cfg, 1, 100, func(models.ListenerArgs) {}, func(models.DcpStreamEndContext) {}, nil, tracing.NewTracerComponent()).(*observer)
	o.SnapshotMarker(models.DcpSnapshotMarker{StartSeqNo: 10, EndSeqNo: 20})
	for _, s := range []uint64{9, 21} {
		died := func() (p bool) {
			defer func() { p = recover() != nil }()
			o.Mutation(gocbcore.DcpMutation{SeqNo: s, Key: []byte("x")})
			return
		}()
		if !died {
			t.Fatalf("VIOLATION C06: a mutation at %d outside the announced snapshot 10..20 was accepted", s)
		}
	}
}
