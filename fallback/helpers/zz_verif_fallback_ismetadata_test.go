package helpers

// Fallback decider (bounded, properties C14 / C03): IsMetadata on events whose key is one of ~60 spellings around
// the two reserved prefixes, carried by a struct with a direct Key field, with a promoted Key field (embedded
// pointer, as the DCP event types do) and without any Key field. Oracle: true exactly when the key starts with
// "_connector:cbgo:" or "_txn:".

import (
	"strings"
	"testing"
)

type vfDirect struct{ Key []byte }
type vfInner struct {
	Key   []byte
	Value []byte
}
type vfPromoted struct {
	*vfInner
	Other int
}
type vfNoKey struct{ Name string }

func TestVerifFallbackIsMetadata(t *testing.T) {
	keys := []string{"", "_", "_c", "_connector", "_connector:", "_connector:cbgo", "_connector:cbgo:", "_connector:cbgo:g:checkpoint:7", "_connector:cbgo:x", "x_connector:cbgo:", " _connector:cbgo:", "_Connector:cbgo:", "_connector:cbgO:", "_connector:cbgo;", "_connector:cbgo",
		"_txn", "_txn:", "_txn:client-record", "_txn:atr-1", "x_txn:", "_ledger_txn:9001", "_TXN:", "_txn;", "__txn:", "_txn", "txn:", "user:_txn:", "user:_connector:cbgo:1", "doc-1", "_doc", "_t", "_tx", "_txn_"}
	for _, k := range keys {
		want := strings.HasPrefix(k, Prefix) || strings.HasPrefix(k, TxnPrefix)
		for name, ev := range map[string]interface{}{"direct": vfDirect{Key: []byte(k)}, "promoted": vfPromoted{vfInner: &vfInner{Key: []byte(k)}}} {
			if got := IsMetadata(ev); got != want {
				t.Fatalf("VIOLATION C14: IsMetadata(%s event with key %q) = %v, want %v", name, k, got, want)
			}
		}
	}
	if IsMetadata(vfNoKey{Name: "_txn:x"}) {
		t.Fatalf("VIOLATION C14: an event without a Key field was classified as a library document")
	}
}
