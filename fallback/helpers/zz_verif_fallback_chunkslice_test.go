package helpers

// Fallback decider (bounded, property C09): the real ChunkSlice for every 1 <= T <= N <= 160 and for
// N in {1009, 1023, 1024} with every 1 <= T <= N. Oracle from the property: T chunks, their
// concatenation is the input in order, sizes differ by at most one, larger chunks first.

import "testing"

func TestVerifFallbackChunkSlice(t *testing.T) {
	cases, bad := 0, 0
	check := func(n, parts int) {
		cases++
		// the input's capacity varies (exact, a little spare, a fixed 1024 like a pre-sized buffer): the share
		// is a function of the elements, not of the spare room behind them
		in := make([]uint16, n, n+[]int{0, 1, 7, 1024}[cases%4])
		for i := range in {
			in[i] = uint16(i)
		}
		out := ChunkSlice[uint16](in, parts)
		fail := func(msg string) {
			if bad++; bad <= 5 {
				t.Errorf("VIOLATION C09: ChunkSlice(N=%d, T=%d): %s", n, parts, msg)
			}
		}
		if len(out) != parts {
			fail("wrong number of chunks")
			return
		}
		next, min, max := 0, n+1, -1
		for ci, c := range out {
			for _, v := range c {
				if int(v) != next {
					fail("chunks are not a partition of the input in order")
					return
				}
				next++
			}
			if len(c) < min {
				min = len(c)
			}
			if len(c) > max {
				max = len(c)
			}
			if ci > 0 && len(c) > len(out[ci-1]) {
				fail("a later chunk is larger than an earlier one")
				return
			}
		}
		if next != n {
			fail("chunks do not cover the input")
		} else if max-min > 1 || min < 1 {
			fail("chunk sizes differ by more than one or a chunk is empty")
		}
	}
	for n := 1; n <= 160; n++ {
		for parts := 1; parts <= n; parts++ {
			check(n, parts)
		}
	}
	for _, n := range []int{1009, 1023, 1024} {
		for parts := 1; parts <= n; parts++ {
			check(n, parts)
		}
	}
	if bad > 5 {
		t.Errorf("... and %d more", bad-5)
	}
	t.Logf("fallback C09 ChunkSlice: %d cases", cases)
}
