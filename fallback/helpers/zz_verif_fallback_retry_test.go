package helpers

// Fallback decider (bounded, property C10): the real Retry on every outcome script of up to 5 attempts
// (each attempt fails or succeeds) for every allowed number of attempts 0..5. Oracle from the property's
// use of it (a dead peer must not look alive): nil exactly when some allowed attempt succeeded, otherwise the
// error of the last allowed attempt; never more calls than allowed, none after the first success.

import (
	"errors"
	"fmt"
	"testing"
)

func TestVerifFallbackRetry(t *testing.T) {
	cases := 0
	for attempts := 0; attempts <= 5; attempts++ {
		for script := 0; script < 1<<5; script++ {
			cases++
			calls := 0
			var errs []error
			f := func() error {
				ok := script&(1<<calls) != 0
				calls++
				if ok {
					return nil
				}
				e := fmt.Errorf("attempt %d failed", calls)
				errs = append(errs, e)
				return e
			}
			got := Retry(f, attempts, 0)
			firstOK := -1
			for i := 0; i < attempts; i++ {
				if script&(1<<i) != 0 {
					firstOK = i
					break
				}
			}
			switch {
			case attempts == 0:
				if got != nil || calls != 0 {
					t.Fatalf("VIOLATION C10: Retry with no attempts allowed made %d calls and returned %v", calls, got)
				}
			case firstOK >= 0:
				if got != nil || calls != firstOK+1 {
					t.Fatalf("VIOLATION C10: Retry(attempts=%d, script=%05b): attempt %d succeeded, got err=%v after %d calls", attempts, script, firstOK+1, got, calls)
				}
			default:
				if got == nil || calls != attempts || !errors.Is(got, errs[len(errs)-1]) {
					t.Fatalf("VIOLATION C10: Retry(attempts=%d, script=%05b): every attempt failed, got err=%v after %d calls (want the last error after %d calls)", attempts, script, got, calls, attempts)
				}
			}
		}
	}
	t.Logf("fallback C10 Retry: %d scripts", cases)
}
