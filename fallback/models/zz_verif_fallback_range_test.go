package models

// Fallback decider (bounded, property C04): VbIDRange.In for every range with 0 <= Start <= End <= 40 and every
// vbID in 0..45, plus the corners of the uint16 domain. Oracle: inclusive on both ends.

import "testing"

func TestVerifFallbackRangeIn(t *testing.T) {
	check := func(a, b, x uint16) {
		r := &VbIDRange{Start: a, End: b}
		if got, want := r.In(x), a <= x && x <= b; got != want {
			t.Fatalf("VIOLATION C04: VbIDRange{%d,%d}.In(%d) = %v, want %v", a, b, x, got, want)
		}
	}
	for a := uint16(0); a <= 40; a++ {
		for b := a; b <= 40; b++ {
			for x := uint16(0); x <= 45; x++ {
				check(a, b, x)
			}
		}
	}
	for _, c := range [][3]uint16{{0, 65535, 0}, {0, 65535, 65535}, {65535, 65535, 65534}, {65535, 65535, 65535}, {1023, 1023, 1023}, {512, 1023, 511}, {512, 1023, 1024}} {
		check(c[0], c[1], c[2])
	}
}
