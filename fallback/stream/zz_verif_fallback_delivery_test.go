package stream

// Fallback decider (bounded) for the delivery path of package stream: listen, waitAndForward and its Ack closure,
// setOffset. Run only when their proofs can no longer be generated from the code.
// Bound: 400 pseudo-random histories (fixed seed) of 5..60 stream events over 3 assigned vBuckets and one foreign
// vBucket: document events (mutation / deletion / expiration), library documents (reserved key prefixes), system
// events (seqno advance, collection/scope events); the consumer acknowledges at once, later in arbitrary order, or
// never; a save is issued at random points.
// Oracle (properties C01, C03, C04, C05, C14): every document event reaches the consumer exactly once, in order,
// unchanged; library documents never do; the tracked position of a vBucket is the furthest position settled (acked,
// absorbed or system event) and never anything else; a vBucket is dirty exactly when an acknowledgement or a system
// event advanced it since the last successful save; a save stores exactly the tracked positions of the dirty ones;
// events of a vBucket outside the assignment change nothing.

import (
	"fmt"
	"math/rand"
	"testing"

	"github.com/Trendyol/go-dcp/models"
	"github.com/couchbase/gocbcore/v10"
)

func TestVerifFallbackDelivery(t *testing.T) {
	r := rand.New(rand.NewSource(20260928))
	ids := []uint16{10, 11, 12}
	for it := 0; it < 400; it++ {
		md := &vfMetadata{}
		cons := &vfConsumer{}
		s := newReplayStream(ids, cons, md, &vfClient{})
		type pend struct {
			vb  uint16
			seq uint64
			ctx *models.ListenerContext // the consumer keeps the context and acknowledges through it later
		}
		var pending []pend
		var delivered []string
		var wantDelivered []string
		settled := map[uint16]uint64{} // furthest settled position
		advanced := map[uint16]bool{}  // advanced by an ack / system event since the last save
		next := map[uint16]uint64{10: 1, 11: 1, 12: 1, 99: 1}
		// a leftover entry of a vBucket that is not assigned (the file backend returns whatever the file holds)
		stale := &models.Offset{SnapshotMarker: &models.SnapshotMarker{}, VbUUID: 3, SeqNo: 5}
		s.offsets.Store(99, stale)
		branch := map[uint16]uint64{10: 7, 11: 7, 12: 7, 99: 7} // vbUUID of the events now flowing (changes on a re-open after failover)
		cons.onEvent = func(ctx *models.ListenerContext) {
			var vb uint16
			var seq uint64
			var key string
			switch e := ctx.Event.(type) {
			case models.DcpMutation:
				vb, seq, key = e.VbID, e.SeqNo, string(e.Key)
			case models.DcpDeletion:
				vb, seq, key = e.VbID, e.SeqNo, string(e.Key)
			case models.DcpExpiration:
				vb, seq, key = e.VbID, e.SeqNo, string(e.Key)
			default:
				t.Fatalf("VIOLATION C03: consumer received a %T", ctx.Event)
			}
			delivered = append(delivered, fmt.Sprintf("%d:%d:%s", vb, seq, key))
			switch r.Intn(3) {
			case 0:
				ctx.Ack()
				if seq > settled[vb] {
					settled[vb] = seq
					advanced[vb] = true
				}
			case 1:
				pending = append(pending, pend{vb, seq, ctx})
			}
		}
		check := func(when string) {
			for _, vb := range ids {
				cur, ok := s.offsets.Load(vb)
				if !ok || cur == nil || cur.SeqNo != settled[vb] {
					got := uint64(0)
					if cur != nil {
						got = cur.SeqNo
					}
					t.Fatalf("VIOLATION C04: history %d, %s: vb %d tracked position %d, furthest settled %d", it, when, vb, got, settled[vb])
				}
				d, _ := s.dirtyOffsets.Load(vb)
				if advanced[vb] && !(d && s.anyDirtyOffset) {
					t.Fatalf("VIOLATION C05: history %d, %s: vb %d advanced to %d but dirty=%v flag=%v", it, when, vb, settled[vb], d, s.anyDirtyOffset)
				}
				if !advanced[vb] && d {
					t.Fatalf("VIOLATION C14: history %d, %s: vb %d is marked dirty although nothing was acknowledged on it since the last save", it, when, vb)
				}
			}
			if cur, _ := s.offsets.Load(99); cur != stale {
				t.Fatalf("VIOLATION C04: history %d: the entry of vBucket 99, which is not assigned, was changed to %+v", it, cur)
			}
			if d, ok := s.dirtyOffsets.Load(99); ok && d {
				t.Fatalf("VIOLATION C04: history %d: vBucket 99, which is not assigned, was marked dirty", it)
			}
		}
		steps := 5 + r.Intn(56)
		for k := 0; k < steps; k++ {
			switch r.Intn(10) {
			case 0: // a late acknowledgement
				if len(pending) > 0 {
					i := r.Intn(len(pending))
					p := pending[i]
					pending = append(pending[:i], pending[i+1:]...)
					p.ctx.Ack()
					if p.seq > settled[p.vb] {
						settled[p.vb] = p.seq
						advanced[p.vb] = true
					}
				}
			case 1: // a save
				before := md.writes
				s.checkpoint.Save()
				for _, vb := range ids {
					if advanced[vb] && md.stored[vb] != settled[vb] {
						t.Fatalf("VIOLATION C05: history %d: save stored %d for vb %d, settled position is %d", it, md.stored[vb], vb, settled[vb])
					}
				}
				any := false
				for _, vb := range ids {
					any = any || advanced[vb]
				}
				if !any && md.writes != before {
					t.Fatalf("VIOLATION C05: history %d: a save with nothing changed wrote %d documents", it, md.writes-before)
				}
				advanced = map[uint16]bool{}
			default:
				vb := append(ids, 99)[r.Intn(4)]
				seq := next[vb]
				next[vb] += uint64(1 + r.Intn(3))
				if r.Intn(25) == 0 {
					branch[vb]++ // the stream was re-opened on another history branch; earlier events may still be acknowledged
				}
				off := &models.Offset{SnapshotMarker: &models.SnapshotMarker{StartSeqNo: seq, EndSeqNo: seq + 5}, VbUUID: gocbcore.VbUUID(branch[vb]), SeqNo: seq}
				kind := r.Intn(8)
				key := fmt.Sprintf("doc-%d", seq)
				docKind := kind
				if kind == 3 {
					key = []string{"_connector:cbgo:g:checkpoint:1", "_txn:client-record"}[r.Intn(2)]
					docKind = r.Intn(3) // a library document arrives as a mutation, a deletion or an expiration
				}
				var ev interface{}
				switch docKind {
				case 0:
					ev = models.DcpMutation{DcpMutation: &gocbcore.DcpMutation{SeqNo: seq, VbID: vb, Key: []byte(key)}, Offset: off}
				case 1:
					ev = models.DcpDeletion{DcpDeletion: &gocbcore.DcpDeletion{SeqNo: seq, VbID: vb, Key: []byte(key)}, Offset: off}
				case 2:
					ev = models.DcpExpiration{DcpExpiration: &gocbcore.DcpExpiration{SeqNo: seq, VbID: vb, Key: []byte(key)}, Offset: off}
				case 4:
					ev = models.DcpSeqNoAdvanced{DcpSeqNoAdvanced: &gocbcore.DcpSeqNoAdvanced{SeqNo: seq, VbID: vb}, Offset: off}
				case 5:
					ev = models.DcpCollectionCreation{DcpCollectionCreation: &gocbcore.DcpCollectionCreation{SeqNo: seq, VbID: vb}, Offset: off}
				case 6:
					ev = models.DcpScopeDeletion{DcpScopeDeletion: &gocbcore.DcpScopeDeletion{SeqNo: seq, VbID: vb}, Offset: off}
				case 7:
					ev = models.DcpCollectionFlush{DcpCollectionFlush: &gocbcore.DcpCollectionFlush{SeqNo: seq, VbID: vb}, Offset: off}
				}
				if kind <= 2 {
					wantDelivered = append(wantDelivered, fmt.Sprintf("%d:%d:%s", vb, seq, key))
				}
				if vb != 99 {
					switch {
					case kind == 3: // absorbed library document: settled, not dirty
						if seq > settled[vb] {
							settled[vb] = seq
						}
					case kind >= 4: // system event: settled and dirty
						if seq > settled[vb] {
							settled[vb] = seq
							advanced[vb] = true
						}
					}
				}
				s.listen(models.ListenerArgs{Event: ev})
			}
			// acknowledgements of a foreign vBucket never count
			delete(settled, 99)
			delete(advanced, 99)
			check(fmt.Sprintf("after step %d", k))
		}
		if fmt.Sprint(delivered) != fmt.Sprint(wantDelivered) {
			t.Fatalf("VIOLATION C03: history %d: delivered %v, the stream carried %v", it, delivered, wantDelivered)
		}
	}
}
