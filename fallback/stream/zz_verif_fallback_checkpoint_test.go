package stream

// Fallback deciders (bounded) for checkpoint.Save / checkpoint.Load / reopenStream: run only when their proofs can
// no longer be generated from the code.

import (
	"errors"
	"math/rand"
	"os"
	"os/exec"
	"testing"
	"time"

	"github.com/Trendyol/go-dcp/couchbase"
	"github.com/Trendyol/go-dcp/models"
	"github.com/Trendyol/go-dcp/stream/offset"
	"github.com/Trendyol/go-dcp/wrapper"
	"github.com/couchbase/gocbcore/v10"
)

// Properties C01/C05/C06: the real checkpoint.Save on 300 pseudo-random states of 1..6 vBuckets (positions, snapshot
// ranges, vbUUIDs, dirty marks, flag), with a store that succeeds, fails, or sees an acknowledgement land while it
// is in flight. Oracle: nothing is written when the flag is down; otherwise exactly one store call receiving every
// tracked position field by field and the dirty marks; on success only vBuckets stored at their current position
// are forgotten; on failure nothing is forgotten.
func TestVerifFallbackCheckpointSave(t *testing.T) {
	r := rand.New(rand.NewSource(7))
	for it := 0; it < 300; it++ {
		n := 1 + r.Intn(6)
		var ids []uint16
		for i := 0; i < n; i++ {
			ids = append(ids, uint16(i))
		}
		md := &vfCapMetadata{}
		s := newReplayStream(ids, &vfConsumer{}, &vfMetadata{}, &vfClient{})
		s.metadata = md
		s.checkpoint.(*checkpoint).metadata = md
		want := map[uint16]models.Offset{}
		dirty := map[uint16]bool{}
		any := false
		for _, vb := range ids {
			o := &models.Offset{SnapshotMarker: &models.SnapshotMarker{StartSeqNo: r.Uint64() >> 1, EndSeqNo: r.Uint64()}, VbUUID: 1 + uint64ToUUID(r.Uint64()), SeqNo: r.Uint64()}
			switch r.Intn(6) { // boundary shapes: a first snapshot starting at 0, a position at a snapshot bound, everything zero
			case 0:
				o.SnapshotMarker.StartSeqNo = 0
			case 1:
				o.SnapshotMarker.StartSeqNo, o.SeqNo = 0, o.SnapshotMarker.EndSeqNo/2
			case 2:
				o.SnapshotMarker.StartSeqNo, o.SnapshotMarker.EndSeqNo = o.SeqNo, o.SeqNo
			case 3:
				o.SnapshotMarker.StartSeqNo, o.SnapshotMarker.EndSeqNo, o.SeqNo = 0, 0, 0
			}
			s.offsets.Store(vb, o)
			want[vb] = *o
			if r.Intn(2) == 0 {
				s.dirtyOffsets.Store(vb, true)
				dirty[vb] = true
				any = true
			}
		}
		s.anyDirtyOffset = any && r.Intn(8) != 0 || (!any && r.Intn(8) == 0)
		flag := s.anyDirtyOffset
		mode := r.Intn(4) // 0 ok, 1 fail, 2 ack during the store, 3 a library document (the save's own feedback) during the store
		ackVb := ids[r.Intn(n)]
		md.onSave = func() error {
			switch mode {
			case 1:
				return errors.New("store rejected")
			case 2:
				cur, _ := s.offsets.Load(ackVb)
				s.setOffset(ackVb, &models.Offset{SnapshotMarker: cur.SnapshotMarker, VbUUID: cur.VbUUID, SeqNo: cur.SeqNo + 1}, true)
			case 3:
				cur, _ := s.offsets.Load(ackVb)
				s.setOffset(ackVb, &models.Offset{SnapshotMarker: cur.SnapshotMarker, VbUUID: cur.VbUUID, SeqNo: cur.SeqNo + 1}, false)
			}
			return nil
		}
		s.checkpoint.Save()
		if !flag {
			if md.calls != 0 {
				t.Fatalf("VIOLATION C05: save with the dirty flag down wrote to the store (%d calls)", md.calls)
			}
			continue
		}
		if md.calls != 1 {
			t.Fatalf("VIOLATION C05: %d store calls for one save", md.calls)
		}
		if len(md.state) != n {
			t.Fatalf("VIOLATION C01: store received %d documents for %d tracked vBuckets", len(md.state), n)
		}
		for vb, o := range want {
			d := md.state[vb]
			if d == nil || d.Checkpoint == nil || d.Checkpoint.Snapshot == nil || d.Checkpoint.SeqNo != o.SeqNo || d.Checkpoint.VbUUID != uint64(o.VbUUID) || d.Checkpoint.Snapshot.StartSeqNo != o.StartSeqNo || d.Checkpoint.Snapshot.EndSeqNo != o.EndSeqNo {
				t.Fatalf("VIOLATION C06: vb %d tracked %+v/%+v handed to the store as %+v", vb, o, o.SnapshotMarker, d)
			}
			if md.dirty[vb] != dirty[vb] {
				t.Fatalf("VIOLATION C05: vb %d dirty=%v handed to the store as dirty=%v", vb, dirty[vb], md.dirty[vb])
			}
		}
		for vb := range dirty {
			still, _ := s.dirtyOffsets.Load(vb)
			switch {
			case mode == 1 && !(still && s.anyDirtyOffset):
				t.Fatalf("VIOLATION C05: failed save forgot dirty vb %d (mark=%v flag=%v)", vb, still, s.anyDirtyOffset)
			case mode == 2 && vb == ackVb && !(still && s.anyDirtyOffset):
				t.Fatalf("VIOLATION C05: acknowledgement on vb %d during the store was forgotten (mark=%v flag=%v)", vb, still, s.anyDirtyOffset)
			case mode == 0 && still:
				t.Fatalf("VIOLATION C05: vb %d still dirty after it was stored at its current position", vb)
			case mode == 3 && still:
				t.Fatalf("VIOLATION C14: vb %d still flagged after a save during which only a library document arrived", vb)
			}
		}
		if mode == 0 || mode == 3 {
			// nothing was acknowledged since: the stream is clean and the next save writes nothing
			md.onSave = nil
			md.calls = 0
			s.checkpoint.Save()
			if md.calls != 0 || s.anyDirtyOffset {
				t.Fatalf("VIOLATION C14: a save followed by no acknowledgement (mode %d) is followed by another write (%d store calls, flag=%v)", mode, md.calls, s.anyDirtyOffset)
			}
		}
		if mode == 2 {
			if still, _ := s.dirtyOffsets.Load(ackVb); !(still && s.anyDirtyOffset) {
				t.Fatalf("VIOLATION C05: acknowledgement on clean vb %d during the store was forgotten", ackVb)
			}
		}
		if mode == 1 {
			// the store recovers: the next save, with no progress in between, stores what the failed one did not
			md.onSave = nil
			md.calls, md.state, md.dirty = 0, nil, nil
			s.checkpoint.Save()
			if md.calls != 1 {
				t.Fatalf("VIOLATION C05: after a failed save the next save issued %d store calls", md.calls)
			}
			for vb := range dirty {
				d := md.state[vb]
				if d == nil || d.Checkpoint.SeqNo != want[vb].SeqNo || !md.dirty[vb] {
					t.Fatalf("VIOLATION C05: vb %d (dirty when the store failed) was not handed to the store by the next save: doc=%+v dirty=%v", vb, d, md.dirty[vb])
				}
				if still, _ := s.dirtyOffsets.Load(vb); still {
					t.Fatalf("VIOLATION C05: vb %d still dirty after the retry stored it", vb)
				}
			}
		}
	}
}

func uint64ToUUID(v uint64) gocbcore.VbUUID { return gocbcore.VbUUID(v >> 2) }

type vfCapMetadata struct {
	vfMetadata
	calls  int
	state  map[uint16]*models.CheckpointDocument
	dirty  map[uint16]bool
	onSave func() error
	docs   map[uint16]*models.CheckpointDocument
	exist  bool
}

func (m *vfCapMetadata) Save(state map[uint16]*models.CheckpointDocument, dirty map[uint16]bool, _ string) error {
	m.calls++
	m.state, m.dirty = state, dirty
	if m.onSave != nil {
		return m.onSave()
	}
	return nil
}

func (m *vfCapMetadata) Load(vbIds []uint16, bucketUUID string) (*wrapper.ConcurrentSwissMap[uint16, *models.CheckpointDocument], bool, error) {
	st := wrapper.CreateConcurrentSwissMap[uint16, *models.CheckpointDocument](16)
	for _, vb := range vbIds {
		if d, ok := m.docs[vb]; ok {
			st.Store(vb, d)
		} else {
			st.Store(vb, models.NewEmptyCheckpointDocument(bucketUUID))
		}
	}
	return st, m.exist, nil
}

// Properties C02/C15: the real checkpoint.Load for 200 pseudo-random stores x {earliest, latest} x {finite, infinite}.
// Oracle: stored values are resumed field by field; with no checkpoint and auto-reset latest every vBucket starts
// at its high seqno; the end is the high seqno in finite mode and unbounded otherwise; a checkpoint beyond the high
// seqno is fatal (not exercised here: the panic is raised on a csmap worker goroutine and ends the process).
func TestVerifFallbackCheckpointLoad(t *testing.T) {
	r := rand.New(rand.NewSource(11))
	for it := 0; it < 600; it++ {
		n := 1 + r.Intn(5)
		var ids []uint16
		for i := 0; i < n; i++ {
			ids = append(ids, uint16(i))
		}
		cl := &vfClient{seqNos: map[uint16]uint64{}}
		md := &vfCapMetadata{docs: map[uint16]*models.CheckpointDocument{}, exist: r.Intn(3) != 0}
		s := newReplayStream(ids, &vfConsumer{}, &vfMetadata{}, cl)
		cp := s.checkpoint.(*checkpoint)
		cp.metadata = md
		s.config.Checkpoint.AutoReset = []string{"earliest", "latest"}[r.Intn(2)]
		finite := r.Intn(2) == 0
		if finite {
			s.config.Dcp.Mode = "finite"
		} else {
			s.config.Dcp.Mode = "infinite"
		}
		cp.offsetLatestSeqNoInit = offset.NewOffsetLatestSeqNoInit(s.config)
		ahead := false
		for _, vb := range ids {
			high := uint64(r.Intn(1000))
			if r.Intn(4) == 0 {
				high = 0 // an empty vBucket
			}
			cl.seqNos[vb] = high
			if md.exist && r.Intn(4) != 0 {
				seq := uint64(0)
				if high > 0 {
					seq = uint64(r.Intn(int(high) + 1))
				}
				// snapshot shapes, including every coincidence of the position with a snapshot bound
				start, end := seq/2, seq+3
				switch r.Intn(6) {
				case 0:
					start, end = seq, seq
				case 1:
					start, end = 0, seq
				case 2:
					start, end = seq, seq+1
				case 3:
					start, end = seq/2, seq
				case 4:
					start, end = 0, 0
				}
				uuid := 100 + uint64(vb)
				if r.Intn(5) == 0 {
					uuid = seq
				}
				// the document's bucket uuid is whatever its writer recorded (empty for older or custom writers,
				// another value after the bucket was re-created): the positions are resumed as persisted all the same
				docBucket := []string{"b", "", "other-incarnation", "verif-replay-bucket"}[r.Intn(4)]
				md.docs[vb] = &models.CheckpointDocument{BucketUUID: docBucket, Checkpoint: &models.CheckpointDocumentCheckpoint{VbUUID: uuid, SeqNo: seq, Snapshot: &models.CheckpointDocumentSnapshot{StartSeqNo: start, EndSeqNo: end}}}
			}
		}
		var offs *wrapper.ConcurrentSwissMap[uint16, *models.Offset]
		panicked := func() (p bool) {
			defer func() { p = recover() != nil }()
			offs, _, _ = cp.Load()
			return
		}()
		if ahead != panicked {
			t.Fatalf("VIOLATION C15: checkpoint beyond the high seqno: ahead=%v fatal=%v", ahead, panicked)
		}
		if panicked {
			continue
		}
		for _, vb := range ids {
			o, ok := offs.Load(vb)
			if !ok || o == nil || o.SnapshotMarker == nil {
				t.Fatalf("VIOLATION C02: vb %d has no resume position after Load", vb)
			}
			high := cl.seqNos[vb]
			end := high
			if !finite {
				end = ^uint64(0) >> 1
			}
			if o.LatestSeqNo != end && !(finite == false && o.LatestSeqNo >= 1<<62) {
				t.Fatalf("VIOLATION C02: vb %d end %d, want %d (finite=%v)", vb, o.LatestSeqNo, end, finite)
			}
			switch {
			case md.exist && md.docs[vb] != nil:
				d := md.docs[vb].Checkpoint
				if o.SeqNo != d.SeqNo || uint64(o.VbUUID) != d.VbUUID || o.StartSeqNo != d.Snapshot.StartSeqNo || o.EndSeqNo != d.Snapshot.EndSeqNo {
					t.Fatalf("VIOLATION C02: vb %d stored %+v/%+v resumes as %+v/%+v", vb, d, d.Snapshot, o, o.SnapshotMarker)
				}
			case !md.exist && s.config.Checkpoint.AutoReset == "latest":
				if o.SeqNo != high || o.StartSeqNo != high || o.EndSeqNo != high {
					t.Fatalf("VIOLATION C02: auto-reset latest: vb %d starts at %d [%d,%d], high seqno %d", vb, o.SeqNo, o.StartSeqNo, o.EndSeqNo, high)
				}
			default:
				if o.SeqNo != 0 || o.StartSeqNo != 0 || o.EndSeqNo != 0 || o.VbUUID != 0 {
					t.Fatalf("VIOLATION C02: vb %d without a checkpoint (checkpoints exist=%v, auto-reset %s) starts at %+v/%+v, want all-zero", vb, md.exist, s.config.Checkpoint.AutoReset, o, o.SnapshotMarker)
				}
			}
		}
	}
}

// Child scenarios (the fatal paths end the process from a worker goroutine, so they run in a re-executed test binary).
func TestVerifFallbackChild(t *testing.T) {
	mode := os.Getenv("VERIF_CHILD")
	if mode == "" {
		t.Skip("helper of the fallback deciders")
	}
	ids := []uint16{0, 1, 2}
	switch mode {
	case "load-ahead", "load-ahead-no-vector-entry":
		cl := &vfClient{seqNos: map[uint16]uint64{0: 100, 1: 100, 2: 100}}
		md := &vfCapMetadata{docs: map[uint16]*models.CheckpointDocument{}, exist: true}
		s := newReplayStream(ids, &vfConsumer{}, &vfMetadata{}, cl)
		cp := s.checkpoint.(*checkpoint)
		cp.metadata = md
		cp.offsetLatestSeqNoInit = offset.NewOffsetLatestSeqNoInit(s.config)
		for _, vb := range ids {
			md.docs[vb] = &models.CheckpointDocument{BucketUUID: "b", Checkpoint: &models.CheckpointDocumentCheckpoint{VbUUID: 5, SeqNo: 40, Snapshot: &models.CheckpointDocumentSnapshot{StartSeqNo: 30, EndSeqNo: 60}}}
		}
		if mode == "load-ahead" {
			md.docs[1].Checkpoint.SeqNo = 140 // beyond the high seqno 100; snapshot start 30 is not
		} else {
			delete(cl.seqNos, 1) // no high seqno known for vb 1: 40 is beyond what the server confirmed
		}
		offs, _, _ := cp.Load()
		o, _ := offs.Load(1)
		t.Logf("Load returned: vb 1 resumes at %+v", o)
	case "open-one-fails", "open-one-fails-rollback", "open-one-fails-socket-closed", "open-one-fails-stream-closed", "open-one-fails-shutdown", "open-one-fails-temporary", "open-one-fails-busy", "open-one-fails-timeout":
		cl := &vfFailOneClient{fail: 1, err: map[string]error{"open-one-fails": errors.New("open failed"), "open-one-fails-rollback": gocbcore.DCPRollbackError{SeqNo: 5}, "open-one-fails-socket-closed": gocbcore.ErrSocketClosed, "open-one-fails-stream-closed": gocbcore.ErrDCPStreamClosed, "open-one-fails-shutdown": gocbcore.ErrShutdown, "open-one-fails-temporary": gocbcore.ErrTemporaryFailure, "open-one-fails-busy": gocbcore.ErrBusy, "open-one-fails-timeout": gocbcore.ErrTimeout}[mode]}
		s := newReplayStream(ids, &vfConsumer{}, &vfMetadata{}, &cl.vfClient)
		s.client = cl
		s.openAllStreams(ids)
		t.Logf("openAllStreams returned although vb 1 could not be opened")
	case "open-position-missing":
		// the loaded positions cover only part of the assignment (a checkpoint file written under another
		// assignment, a custom backend): the assigned vBucket without a position cannot be requested - fatal
		cl := &vfClient{}
		s := newReplayStream(ids, &vfConsumer{}, &vfMetadata{}, cl)
		s.offsets.Delete(1)
		s.openAllStreams(ids)
		t.Logf("openAllStreams returned although assigned vb 1 has no position to resume from (requested: %v)", cl.opened)
	}
}

type vfFailOneClient struct {
	vfClient
	fail uint16
	err  error
}

func (c *vfFailOneClient) OpenStream(vbID uint16, ids map[uint32]string, o *models.Offset, ob couchbase.Observer) error {
	if vbID == c.fail {
		return c.err
	}
	time.Sleep(150 * time.Millisecond) // the other vBuckets open after the failure has been reported
	return nil
}

// runChild re-executes this test binary for one fatal scenario; it reports whether the process died.
func runChild(t *testing.T, mode string) (died bool, out string) {
	cmd := exec.Command(os.Args[0], "-test.run=^TestVerifFallbackChild$", "-test.v")
	cmd.Env = append(os.Environ(), "VERIF_CHILD="+mode)
	b, err := cmd.CombinedOutput()
	return err != nil, string(b)
}

// Property C15: a checkpoint beyond the vBucket's confirmed high seqno is fatal (two layouts).
func TestVerifFallbackLoadAheadIsFatal(t *testing.T) {
	for _, mode := range []string{"load-ahead", "load-ahead-no-vector-entry"} {
		if died, out := runChild(t, mode); !died {
			t.Errorf("VIOLATION C15: %s: a stored checkpoint beyond the confirmed high seqno did not stop the client: %.300s", mode, out)
		}
	}
}

// Property C15: one assigned vBucket that cannot be opened stops the client.
func TestVerifFallbackOpenFailureIsFatal(t *testing.T) {
	for _, mode := range []string{"open-position-missing", "open-one-fails", "open-one-fails-rollback", "open-one-fails-socket-closed", "open-one-fails-stream-closed", "open-one-fails-shutdown", "open-one-fails-temporary", "open-one-fails-busy", "open-one-fails-timeout"} {
		if died, out := runChild(t, mode); !died {
			t.Errorf("VIOLATION C15: %s: a vBucket stream that cannot be opened did not stop the client: %.300s", mode, out)
		}
	}
}

// Properties C12/C15: the real reopenStream gives up after exactly 5 failed attempts by terminating, stops retrying at
// the first success, and does nothing once the stream is closed. (Takes ~4 s for the 1 s pauses between attempts.)
func TestVerifFallbackReopenStream(t *testing.T) {
	for fails := 0; fails <= 5; fails++ {
		cl := &vfCountingClient{failFirst: fails}
		s := newReplayStream([]uint16{0}, &vfConsumer{}, &vfMetadata{}, &cl.vfClient)
		s.client = cl
		if fails == 5 {
			continue // covered below (needs 4 pauses)
		}
		if fails > 1 {
			continue // keep the run short: 0 and 1 failed attempts, then exhaustion
		}
		s.reopenStream(0)
		if cl.calls != fails+1 {
			t.Fatalf("VIOLATION C12: %d failing attempts then success: %d stream requests, want %d", fails, cl.calls, fails+1)
		}
	}
	cl := &vfCountingClient{failFirst: 1 << 30}
	s := newReplayStream([]uint16{0}, &vfConsumer{}, &vfMetadata{}, &cl.vfClient)
	s.client = cl
	died := func() (p bool) {
		defer func() { p = recover() != nil }()
		s.reopenStream(0)
		return
	}()
	if !died || cl.calls != 5 {
		t.Fatalf("VIOLATION C15: vBucket that cannot be re-opened: terminated=%v after %d attempts (want termination after 5)", died, cl.calls)
	}
	cl2 := &vfCountingClient{}
	s2 := newReplayStream([]uint16{0}, &vfConsumer{}, &vfMetadata{}, &cl2.vfClient)
	s2.client = cl2
	s2.observers = nil
	s2.reopenStream(0)
	if cl2.calls != 0 {
		t.Fatalf("VIOLATION C11: re-open after the stream was closed issued %d stream requests", cl2.calls)
	}
}

type vfCountingClient struct {
	vfClient
	calls     int
	failFirst int
}

func (c *vfCountingClient) OpenStream(vbID uint16, ids map[uint32]string, o *models.Offset, ob couchbase.Observer) error {
	c.calls++
	if c.calls <= c.failFirst {
		return errors.New("open failed")
	}
	return nil
}
