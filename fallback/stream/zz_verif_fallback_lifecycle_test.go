package stream

// Fallback decider (bounded, properties C11 / C12 / C13 / C09 / C02): the lifecycle functions of the stream (Open,
// Close, Rebalance, rebalance, wait, listenEnd) on the real code with fakes at the interface boundary.
// Scenarios: open on an assignment; a burst of three membership notifications inside the delay (the assignment
// changes meanwhile); a repeated Close; Close inside a rebalance window; a finite stream that ends for good; a
// transient end during a session. Oracle: exactly the assigned vBuckets are requested, once each; a burst closes the
// stream once and reopens it once, one delay after the LAST notification, on the latest assignment, with the
// lifecycle callbacks properly bracketed, and never stops the client; nothing is delivered while closed; Close is
// idempotent and final (no reopen afterwards); the client stops exactly when every vBucket ended for good.

import (
	"fmt"
	"sort"
	"strings"
	"sync"
	"testing"
	"time"

	"github.com/Trendyol/go-dcp/couchbase"
	"github.com/Trendyol/go-dcp/models"
	"github.com/couchbase/gocbcore/v10"
)

type vfEvents struct {
	mu  sync.Mutex
	log []string
}

func (e *vfEvents) add(s string)          { e.mu.Lock(); e.log = append(e.log, s); e.mu.Unlock() }
func (e *vfEvents) String() string        { e.mu.Lock(); defer e.mu.Unlock(); return strings.Join(e.log, " ") }
func (e *vfEvents) BeforeRebalanceStart() { e.add("RS[") }
func (e *vfEvents) AfterRebalanceStart()  { e.add("]RS") }
func (e *vfEvents) BeforeRebalanceEnd()   { e.add("RE[") }
func (e *vfEvents) AfterRebalanceEnd()    { e.add("]RE") }
func (e *vfEvents) BeforeStreamStart()    { e.add("SS[") }
func (e *vfEvents) AfterStreamStart()     { e.add("]SS") }
func (e *vfEvents) BeforeStreamStop()     { e.add("ST[") }
func (e *vfEvents) AfterStreamStop()      { e.add("]ST") }

func sorted(v []uint16) string {
	c := append([]uint16(nil), v...)
	sort.Slice(c, func(i, j int) bool { return c[i] < c[j] })
	return fmt.Sprint(c)
}

func TestVerifFallbackLifecycle(t *testing.T) {
	const delay = 300 * time.Millisecond
	newS := func(ids []uint16) (*stream, *vfClient, *vfDiscovery, *vfEvents) {
		cl := &vfClient{seqNos: map[uint16]uint64{}}
		s := newReplayStream(ids, &vfConsumer{}, &vfMetadata{}, cl)
		// back to the state NewStream leaves: nothing opened yet
		s.observers, s.offsets, s.dirtyOffsets, s.open = nil, nil, nil, false
		d := &vfDiscovery{ids: ids}
		ev := &vfEvents{}
		s.vBucketDiscovery, s.eventHandler = d, ev
		s.config.Dcp.Group.Membership.RebalanceDelay = delay
		return s, cl, d, ev
	}
	stopped := func(s *stream) bool {
		select {
		case <-s.stopCh:
			return true
		default:
			return false
		}
	}
	// 1. open
	s, cl, d, ev := newS([]uint16{4, 5, 6})
	s.Open()
	if sorted(cl.opened) != "[4 5 6]" || !s.open || s.activeStreams.Load() != 3 || s.vbIDRange.Start != 4 || s.vbIDRange.End != 6 {
		t.Fatalf("VIOLATION C12: open on assignment [4 5 6]: requested %v open=%v active=%d range=%+v", cl.opened, s.open, s.activeStreams.Load(), s.vbIDRange)
	}
	if ev.String() != "SS[ ]SS" {
		t.Fatalf("VIOLATION C11: callbacks of an open: %q, want \"SS[ ]SS\"", ev.String())
	}
	// 2. a burst of three notifications; the assignment changes twice meanwhile
	cl.opened = nil
	t0 := time.Now()
	s.Rebalance()
	d.ids = []uint16{1, 2}
	time.Sleep(delay / 3)
	s.Rebalance()
	d.ids = []uint16{7, 8, 9, 10}
	time.Sleep(delay / 3)
	s.Rebalance()
	last := time.Now()
	if s.open || s.observers != nil {
		t.Fatalf("VIOLATION C11: the stream is still open during the rebalance window")
	}
	if sorted(cl.closed) != "[4 5 6]" {
		t.Fatalf("VIOLATION C11: a burst of notifications closed %v, want each of [4 5 6] once", cl.closed)
	}
	time.Sleep(delay * 2 / 3)
	if len(cl.opened) != 0 {
		t.Fatalf("VIOLATION C11: reopened %v only %v after the last notification of the burst (delay %v)", cl.opened, time.Since(last), delay)
	}
	time.Sleep(delay)
	if sorted(cl.opened) != "[7 8 9 10]" || !s.open {
		t.Fatalf("VIOLATION C11: after the burst (started %v ago) the stream was reopened on %v (open=%v), want the latest assignment [7 8 9 10] once", time.Since(t0), cl.opened, s.open)
	}
	if got, want := ev.String(), "SS[ ]SS RS[ ST[ ]ST ]RS RE[ SS[ ]SS ]RE"; got != want {
		t.Fatalf("VIOLATION C11: lifecycle callbacks %q, want %q", got, want)
	}
	if stopped(s) {
		t.Fatalf("VIOLATION C11: a rebalance stopped the client")
	}
	if m, _ := s.GetMetric(); m.Rebalance != 1 {
		t.Fatalf("VIOLATION C16: rebalance count %d after one rebalance", m.Rebalance)
	}
	// 3. a transient end is re-opened, a final end counts down
	cl.opened = nil
	o7, _ := s.observers.Load(7)
	o7.End(models.DcpStreamEnd{VbID: 7}, gocbcore.ErrDCPStreamStateChanged)
	time.Sleep(200 * time.Millisecond)
	if sorted(cl.opened) != "[7]" || s.activeStreams.Load() != 4 || stopped(s) {
		t.Fatalf("VIOLATION C12: transient end of vb 7: re-requested %v, active=%d, stopped=%v", cl.opened, s.activeStreams.Load(), stopped(s))
	}
	// 4. Close twice; nothing reopens afterwards
	s.Close(false)
	s.Close(false)
	if s.open || s.observers != nil || sorted(cl.closed[3:]) != "[7 8 9 10]" {
		t.Fatalf("VIOLATION C13: after Close: open=%v, closed streams %v (want each of [7 8 9 10] once)", s.open, cl.closed[3:])
	}
	// 5. Close inside a rebalance window is final
	s, cl, d, ev = newS([]uint16{0, 1})
	s.Open()
	s.Rebalance()
	s.Close(true)
	cl.opened = nil
	time.Sleep(2 * delay)
	if len(cl.opened) != 0 || s.open {
		t.Fatalf("VIOLATION C13: the stream was reopened (%v) after Close inside the rebalance window", cl.opened)
	}
	// 6. a finite stream stops the client exactly when every vBucket ended for good
	s, cl, d, ev = newS([]uint16{0, 1, 2})
	s.Open()
	for i, vb := range []uint16{0, 1, 2} {
		if stopped(s) {
			t.Fatalf("VIOLATION C12: the client stopped after %d of 3 vBuckets ended", i)
		}
		o, _ := s.observers.Load(vb)
		o.End(models.DcpStreamEnd{VbID: vb}, nil)
		time.Sleep(50 * time.Millisecond)
	}
	time.Sleep(200 * time.Millisecond)
	if !stopped(s) {
		t.Fatalf("VIOLATION C12: every vBucket ended for good but the client did not stop")
	}
	// 7. a notification that arrives while the reopen of the previous rebalance is still running is not lost
	s, cl, d, ev = newS([]uint16{0, 1})
	slow := &vfSlowClient{vfClient: cl}
	s.client = slow
	s.Open()
	slow.delay = 250 * time.Millisecond
	slow.opened = nil
	s.Rebalance()
	d.ids = []uint16{2, 3}
	time.Sleep(delay + 100*time.Millisecond) // the timer has fired, the reopen on [2 3] is in progress
	d.ids = []uint16{5, 6, 7}
	s.Rebalance()
	time.Sleep(3*delay + 4*slow.delay)
	if !s.open || s.vbIDRange == nil || s.vbIDRange.Start != 5 || s.vbIDRange.End != 7 || stopped(s) {
		t.Fatalf("VIOLATION C11: a notification during the reopen was lost or mishandled: open=%v range=%+v stopped=%v requests=%v callbacks=%q", s.open, s.vbIDRange, stopped(s), slow.opened, ev.String())
	}
	if got, want := ev.String(), "SS[ ]SS RS[ ST[ ]ST ]RS RE[ SS[ ]SS ]RE RS[ ST[ ]ST ]RS RE[ SS[ ]SS ]RE"; got != want {
		t.Fatalf("VIOLATION C11: two rebalances: callbacks %q, want %q", got, want)
	}
	// 8. a transient end whose re-open is still in flight while the other vBuckets end for good
	s, cl, d, ev = newS([]uint16{0, 1, 2})
	slow = &vfSlowClient{vfClient: cl}
	s.client = slow
	s.Open()
	slow.delay = 400 * time.Millisecond
	o0, _ := s.observers.Load(0)
	o0.End(models.DcpStreamEnd{VbID: 0}, gocbcore.ErrDCPStreamTooSlow) // re-open of vb 0 takes 400 ms
	time.Sleep(50 * time.Millisecond)
	for _, vb := range []uint16{1, 2} {
		o, _ := s.observers.Load(vb)
		o.End(models.DcpStreamEnd{VbID: vb}, nil)
	}
	time.Sleep(150 * time.Millisecond)
	if stopped(s) {
		t.Fatalf("VIOLATION C12: the client stopped while vBucket 0 was still being re-opened")
	}
	time.Sleep(500 * time.Millisecond)
	if s.activeStreams.Load() != 1 {
		t.Fatalf("VIOLATION C12: one vBucket streaming, active-stream count %d", s.activeStreams.Load())
	}
	o0, _ = s.observers.Load(0)
	o0.End(models.DcpStreamEnd{VbID: 0}, nil)
	time.Sleep(200 * time.Millisecond)
	if !stopped(s) {
		t.Fatalf("VIOLATION C12: the last vBucket ended for good but the client did not stop")
	}
}

type vfSlowClient struct {
	*vfClient
	delay time.Duration
}

func (c *vfSlowClient) OpenStream(vbID uint16, ids map[uint32]string, o *models.Offset, ob couchbase.Observer) error {
	time.Sleep(c.delay)
	return c.vfClient.OpenStream(vbID, ids, o, ob)
}
