package stream

// Fallback deciders (bounded) for package stream, run only when the proof of the named function can
// no longer be generated from the code.

import (
	"sort"
	"sync"
	"testing"
	"time"

	"github.com/Trendyol/go-dcp/couchbase"
	"github.com/Trendyol/go-dcp/membership"
	"github.com/Trendyol/go-dcp/models"
)

type vfMembership struct{ info *membership.Model }

func (m *vfMembership) GetInfo() *membership.Model { return m.info }
func (m *vfMembership) Close()                     {}

// Properties C09/C16: the real vBucketDiscovery.Get for N in {1..40, 64, 128, 1000, 1024}, every T <= min(N, 48)
// and every member 1..T. Oracle: the T ranges are disjoint, cover 0..N-1 in order, sizes differ by at most
// one (larger first), the result depends only on (N, T, member), and the discovery metric shows exactly
// the member number, group size and first/last vBucket returned.
func TestVerifFallbackDiscoveryGet(t *testing.T) {
	cases, bad := 0, 0
	ns := []int{64, 128, 1000, 1024}
	for n := 1; n <= 40; n++ {
		ns = append(ns, n)
	}
	for _, n := range ns {
		for total := 1; total <= n && total <= 48; total++ {
			next, prevLen := 0, n+1
			min, max := n+1, -1
			// one discovery object per group size, renumbered in place (same size, other member number)
			ms := &vfMembership{&membership.Model{MemberNumber: total, TotalMembers: total}}
			d := &vBucketDiscovery{vBucketNumber: n, membership: ms, vBucketDiscoveryMetric: &VBucketDiscoveryMetric{VBucketCount: n}}
			d.Get()
			for member := 1; member <= total; member++ {
				cases++
				ms.info = &membership.Model{MemberNumber: member, TotalMembers: total}
				got := d.Get()
				again := (&vBucketDiscovery{vBucketNumber: n, membership: &vfMembership{&membership.Model{MemberNumber: member, TotalMembers: total}}, vBucketDiscoveryMetric: &VBucketDiscoveryMetric{VBucketCount: n}}).Get()
				fail := func(msg string) {
					if bad++; bad <= 5 {
						t.Errorf("VIOLATION C09: Get(N=%d, T=%d, member=%d) = %v: %s", n, total, member, got, msg)
					}
				}
				if len(got) == 0 || len(got) != len(again) {
					fail("empty or not a function of (N, T, member)")
					continue
				}
				for i, v := range got {
					if int(v) != next || again[i] != v {
						fail("ranges are not consecutive, disjoint and in order")
						break
					}
					next++
				}
				if len(got) > prevLen {
					fail("a later member owns more vBuckets than an earlier one")
				}
				prevLen = len(got)
				if len(got) < min {
					min = len(got)
				}
				if len(got) > max {
					max = len(got)
				}
				m := d.GetMetric()
				if m.MemberNumber != member || m.TotalMembers != total || m.VBucketRangeStart != got[0] || m.VBucketRangeEnd != got[len(got)-1] {
					if bad++; bad <= 5 {
						t.Errorf("VIOLATION C16: discovery metric %+v does not show member %d/%d range %d-%d", *m, member, total, got[0], got[len(got)-1])
					}
				}
			}
			if next != n || max-min > 1 {
				if bad++; bad <= 5 {
					t.Errorf("VIOLATION C09: N=%d T=%d: ranges cover %d vBuckets, sizes %d..%d", n, total, next, min, max)
				}
			}
		}
	}
	// one discovery object across group-size changes (grow and shrink): always the partition of the current group
	{
		ms := &vfMembership{&membership.Model{MemberNumber: 1, TotalMembers: 1}}
		d := &vBucketDiscovery{vBucketNumber: 1024, membership: ms, vBucketDiscoveryMetric: &VBucketDiscoveryMetric{VBucketCount: 1024}}
		for _, total := range []int{1, 4, 3, 8, 2, 5, 1} {
			next := 0
			for member := 1; member <= total; member++ {
				ms.info = &membership.Model{MemberNumber: member, TotalMembers: total}
				for _, v := range d.Get() {
					if int(v) != next {
						t.Fatalf("VIOLATION C09: after the group size changed to %d, member %d's range does not continue at %d (got %d): stale partition", total, member, next, v)
					}
					next++
				}
			}
			if next != 1024 {
				t.Fatalf("VIOLATION C09: after the group size changed to %d the ranges cover %d of 1024 vBuckets", total, next)
			}
		}
	}
	if bad > 5 {
		t.Errorf("... and %d more", bad-5)
	}
	t.Logf("fallback C09 discovery: %d cases", cases)
}

// Property C15 (open-all-or-die) and C12: the real openAllStreams requests every assigned vBucket exactly once,
// with the observer registered for it. Bound: assignments of 1..12 consecutive vBuckets at offsets 0, 5, 1000.
func TestVerifFallbackOpenAllStreams(t *testing.T) {
	cases := 0
	for _, base := range []uint16{0, 5, 1000} {
		for n := 1; n <= 12; n++ {
			cases++
			var ids []uint16
			for i := 0; i < n; i++ {
				ids = append(ids, base+uint16(i))
			}
			cl := &vfClient{}
			s := newReplayStream(ids, &vfConsumer{}, &vfMetadata{}, cl)
			s.openAllStreams(ids)
			got := append([]uint16(nil), cl.opened...)
			sort.Slice(got, func(i, j int) bool { return got[i] < got[j] })
			if len(got) != n {
				t.Fatalf("VIOLATION C15: assignment %v: %d stream requests %v (every assigned vBucket must be requested exactly once)", ids, len(got), got)
			}
			for i, vb := range ids {
				o, _ := s.observers.Load(vb)
				if got[i] != vb || cl.openedWith[vb] != o {
					t.Fatalf("VIOLATION C15: assignment %v: requests %v, vBucket %d requested with a foreign observer=%v", ids, got, vb, cl.openedWith[vb] != o)
				}
			}
		}
	}
	// a large assignment whose requests are answered slowly: still one request per assigned vBucket
	{
		cases++
		var ids []uint16
		for i := 0; i < 300; i++ {
			ids = append(ids, uint16(i))
		}
		cl := &vfClient{}
		cl.openDelay = 20 * time.Millisecond
		s := newReplayStream(ids, &vfConsumer{}, &vfMetadata{}, cl)
		s.openAllStreams(ids)
		seen := map[uint16]int{}
		for _, vb := range cl.opened {
			seen[vb]++
		}
		for _, vb := range ids {
			if seen[vb] != 1 {
				t.Fatalf("VIOLATION C15: 300 assigned vBuckets with slow answers: vBucket %d requested %d times (%d requests in all)", vb, seen[vb], len(cl.opened))
			}
		}
	}
	t.Logf("fallback C15 openAllStreams: %d cases", cases)
}

type vfOrderObserver struct {
	couchbase.Observer
	vb  uint16
	log *[]string
	mu  *sync.Mutex
}

func (o *vfOrderObserver) Close()    { o.mu.Lock(); *o.log = append(*o.log, "close"); o.mu.Unlock() }
func (o *vfOrderObserver) CloseEnd() { o.mu.Lock(); *o.log = append(*o.log, "closeEnd"); o.mu.Unlock() }
func (o *vfOrderObserver) GetMetrics() *couchbase.ObserverMetric {
	return &couchbase.ObserverMetric{}
}

// Property C13: the real stream.Close closes the delivery switch of every observer before any vBucket
// stream is closed and the end switch of every observer after all of them. Bound: 1..8 vBuckets.
func TestVerifFallbackCloseOrder(t *testing.T) {
	for n := 1; n <= 8; n++ {
		var ids []uint16
		for i := 0; i < n; i++ {
			ids = append(ids, uint16(i))
		}
		var log []string
		mu := &sync.Mutex{}
		cl := &vfClient{}
		cl.onClose = func(uint16) { mu.Lock(); log = append(log, "stream"); mu.Unlock() }
		s := newReplayStream(ids, &vfConsumer{}, &vfMetadata{}, cl)
		for _, vb := range ids {
			s.observers.Store(vb, &vfOrderObserver{vb: vb, log: &log, mu: mu})
		}
		s.checkpoint = &vfNopCheckpoint{}
		s.Close(false)
		phase := 0
		counts := map[string]int{}
		for _, e := range log {
			counts[e]++
			want := map[string]int{"close": 0, "stream": 1, "closeEnd": 2}[e]
			if want < phase {
				t.Fatalf("VIOLATION C13: %d vBuckets: teardown order %v (delivery switches, then streams, then end switches)", n, log)
			}
			phase = want
		}
		if counts["close"] != n || counts["stream"] != n || counts["closeEnd"] != n {
			t.Fatalf("VIOLATION C13: %d vBuckets: teardown %v does not switch off and close every vBucket once", n, counts)
		}
		if s.open || s.observers != nil {
			t.Fatalf("VIOLATION C13: stream still open after Close")
		}
	}
}

type vfNopCheckpoint struct{ Checkpoint }

func (*vfNopCheckpoint) StopSchedule() {}

var _ = models.DefaultEventHandler
