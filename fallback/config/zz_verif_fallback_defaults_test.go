package config

// Fallback decider (bounded, property C17): the real ApplyDefaults on 300 pseudo-random configurations in which a
// random subset of the defaulted options is explicitly set (table generated from tools/gen_config_contracts.py, i.e.
// the documented defaults). Oracle: every unset option takes its documented default, every explicitly set value is
// kept, applying the defaults twice changes nothing, and the environment overrides for member number / group size
// win over file values.

import (
	"math/rand"
	"os"
	"reflect"
	"strings"
	"testing"
)

func vfField(c *Dcp, path string) reflect.Value {
	v := reflect.ValueOf(c).Elem()
	for _, p := range strings.Split(path, ".") {
		v = v.FieldByName(p)
	}
	return v
}

func TestVerifFallbackApplyDefaults(t *testing.T) {
	table := []struct {
		path string
		def  interface{}
	}{
		{"RollbackMitigation.Interval", int64(1000000000)},
		{"RollbackMitigation.ConfigWatchInterval", int64(10000000000)},
		{"Checkpoint.Interval", int64(60000000000)},
		{"Checkpoint.Timeout", int64(60000000000)},
		{"Checkpoint.Type", "auto"},
		{"Checkpoint.AutoReset", "earliest"},
		{"HealthCheck.Interval", int64(60000000000)},
		{"HealthCheck.Timeout", int64(60000000000)},
		{"Dcp.ConnectionTimeout", int64(60000000000)},
		{"ConnectionTimeout", int64(60000000000)},
		{"ScopeName", "_default"},
		{"MaxQueueSize", int64(2048)},
		{"Metric.Path", "/metrics"},
		{"API.Port", int64(8080)},
		{"LeaderElection.Type", "kubernetes"},
		{"LeaderElection.RPC.Port", int64(8081)},
		{"Metadata.Type", "couchbase"},
		{"Dcp.Group.Membership.RebalanceDelay", int64(30000000000)},
		{"Dcp.Group.Membership.Type", "couchbase"},
		{"Dcp.MaxQueueSize", int64(2048)},
	}
	os.Unsetenv("GO_DCP__DCP_GROUP_MEMBERSHIP_TOTALMEMBERS")
	os.Unsetenv("GO_DCP__DCP_GROUP_MEMBERSHIP_MEMBERNUMBER")
	r := rand.New(rand.NewSource(17))
	for it := 0; it < 300; it++ {
		c := &Dcp{}
		want := map[string]interface{}{}
		for _, e := range table {
			f := vfField(c, e.path)
			if !f.IsValid() {
				t.Fatalf("table out of date: no option %s", e.path)
			}
			explicit := r.Intn(2) == 0
			switch f.Kind() {
			case reflect.String:
				want[e.path] = e.def
				if explicit {
					s := "custom-" + e.path
					f.SetString(s)
					want[e.path] = s
				}
			default:
				want[e.path] = e.def
				if explicit {
					n := int64(1 + r.Intn(1<<30))
					if f.Kind() >= reflect.Uint && f.Kind() <= reflect.Uint64 {
						f.SetUint(uint64(n))
					} else {
						f.SetInt(n)
					}
					want[e.path] = n
				}
			}
		}
		members := [2]int{0, 0}
		if r.Intn(2) == 0 {
			members = [2]int{1 + r.Intn(9), 10 + r.Intn(9)}
			c.Dcp.Group.Membership.MemberNumber, c.Dcp.Group.Membership.TotalMembers = members[0], members[1]
		}
		check := func(round string) {
			for _, e := range table {
				f := vfField(c, e.path)
				var got interface{}
				switch f.Kind() {
				case reflect.String:
					got = f.String()
				default:
					if f.Kind() >= reflect.Uint && f.Kind() <= reflect.Uint64 {
						got = int64(f.Uint())
					} else {
						got = f.Int()
					}
				}
				if got != want[e.path] {
					t.Fatalf("VIOLATION C17: configuration %d, %s: option %s = %v, want %v", it, round, e.path, got, want[e.path])
				}
			}
			wm, wt := members[0], members[1]
			if wm == 0 {
				wm, wt = 1, 1
			}
			if c.Dcp.Group.Membership.MemberNumber != wm || c.Dcp.Group.Membership.TotalMembers != wt {
				t.Fatalf("VIOLATION C17: configuration %d, %s: member %d/%d, want %d/%d", it, round, c.Dcp.Group.Membership.MemberNumber, c.Dcp.Group.Membership.TotalMembers, wm, wt)
			}
			if len(c.CollectionNames) != 1 || c.CollectionNames[0] != "_default" || c.ConnectionBufferSize == nil || c.Dcp.BufferSize == nil || c.Dcp.ConnectionBufferSize == nil {
				t.Fatalf("VIOLATION C17: configuration %d, %s: collection / buffer defaults missing", it, round)
			}
		}
		c.ApplyDefaults()
		check("after ApplyDefaults")
		c.ApplyDefaults()
		check("after a second ApplyDefaults (idempotence)")
	}
	// the environment overrides win over file values
	t.Setenv("GO_DCP__DCP_GROUP_MEMBERSHIP_TOTALMEMBERS", "7")
	t.Setenv("GO_DCP__DCP_GROUP_MEMBERSHIP_MEMBERNUMBER", "4")
	c := &Dcp{}
	c.Dcp.Group.Membership.MemberNumber, c.Dcp.Group.Membership.TotalMembers = 2, 3
	c.ApplyDefaults()
	if c.Dcp.Group.Membership.MemberNumber != 4 || c.Dcp.Group.Membership.TotalMembers != 7 {
		t.Fatalf("VIOLATION C17: environment overrides 4/7 lost against file values 2/3: %d/%d", c.Dcp.Group.Membership.MemberNumber, c.Dcp.Group.Membership.TotalMembers)
	}
}
