package tracing

// Fallback decider (bounded, property C03): the three tracing constructors the delivery path calls
// (NewObserverLabels, StartOpTelemeteryHandler, NewListenerTracerComponent) leave everything they are
// handed as it was: the collection-name map (the observer's own map: it names the collection of every
// delivered event), the tracer component and the parent span context. Oracle: deep copies taken before
// the call equal the arguments after it; the results are non-nil. Used only when the frame proofs of
// these functions can no longer be generated (restructured bodies).

import (
	"context"
	"fmt"
	"reflect"
	"testing"
	"time"
)

type vfSpan struct{ attrs map[string]interface{} }

func (s *vfSpan) End()                                     {}
func (s *vfSpan) Context() RequestSpanContext              { return RequestSpanContext{RefCtx: context.TODO(), Value: "span"} }
func (s *vfSpan) AddEvent(name string, timestamp time.Time) {}
func (s *vfSpan) SetAttribute(key string, value interface{}) { s.attrs[key] = value }

type vfTracer struct{ spans int }

func (t *vfTracer) RequestSpan(parent RequestSpanContext, op string) RequestSpan {
	t.spans++
	return &vfSpan{attrs: map[string]interface{}{}}
}

func vfMaps() []map[uint32]string {
	ms := []map[uint32]string{nil, {}, {0: "_default"}, {0: "_default", 8: "orders"}, {8: "orders", 9: "", 0xffffffff: "last"}}
	x := uint32(12345)
	for n := 0; n < 40; n++ {
		m := map[uint32]string{}
		for k := 0; k < n%7; k++ {
			x = x*1664525 + 1013904223
			m[x>>(x%29)] = fmt.Sprint("c", x%97)
		}
		if n%3 == 0 {
			m[0] = "_default"
		}
		ms = append(ms, m)
	}
	return ms
}

func vfCopy(m map[uint32]string) map[uint32]string {
	if m == nil {
		return nil
	}
	c := make(map[uint32]string, len(m))
	for k, v := range m {
		c[k] = v
	}
	return c
}

func TestVerifFallbackTracingConstructors(t *testing.T) {
	for _, tr := range []RequestTracer{&NoopTracer{}, &vfTracer{}} {
		for i, m := range vfMaps() {
			before := vfCopy(m)
			vb := uint16(i * 131)
			labels := NewObserverLabels(vb, m)
			if labels == nil {
				t.Fatalf("VIOLATION NewObserverLabels(%d, %v) returned nil", vb, before)
			}
			if !reflect.DeepEqual(m, before) || (m == nil) != (before == nil) {
				t.Fatalf("VIOLATION NewObserverLabels(%d, %v) changed the caller's collection map to %v", vb, before, m)
			}
			tc := &TracerComponent{tracer: tr}
			parent := RequestSpanContext{RefCtx: context.TODO(), Value: i}
			h := tc.StartOpTelemeteryHandler("go-dcp-observer", "Mutation", parent, labels)
			if h == nil {
				t.Fatalf("VIOLATION StartOpTelemeteryHandler returned nil (map %v)", before)
			}
			if !reflect.DeepEqual(m, before) {
				t.Fatalf("VIOLATION StartOpTelemeteryHandler changed the caller's collection map %v to %v", before, m)
			}
			if tc.tracer != tr {
				t.Fatalf("VIOLATION StartOpTelemeteryHandler replaced the component's tracer")
			}
			if parent.Value != i {
				t.Fatalf("VIOLATION StartOpTelemeteryHandler changed the parent context")
			}
			_ = h.RootContext()
			ltc := tc.NewListenerTracerComponent(h.RootContext())
			if ltc == nil {
				t.Fatalf("VIOLATION NewListenerTracerComponent returned nil")
			}
			if tc.tracer != tr {
				t.Fatalf("VIOLATION NewListenerTracerComponent replaced the component's tracer")
			}
			h.Finish()
			if !reflect.DeepEqual(m, before) {
				t.Fatalf("VIOLATION Finish changed the caller's collection map %v to %v", before, m)
			}
		}
	}
}
