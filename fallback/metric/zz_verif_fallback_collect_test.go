package metric

// Fallback decider (bounded, property C16): the real metric collector scraped through a prometheus registry against
// fake stream / client / discovery state. Bound: 150 pseudo-random states of 1..6 vBuckets (positions, snapshot
// ranges, high seqnos above / equal / below the tracked position, missing high seqnos, per-vBucket event counters),
// a failing seqno query, and a closed stream.
// Oracle: per-vBucket gauges equal the tracked position and its snapshot range; lag = max(0, high - tracked); total
// lag = sum of the lags; counters equal the observers' counts; group / range / active-stream / rebalance gauges equal
// the values in effect; scraping a closed stream emits nothing and does not crash.

import (
	"errors"
	"fmt"
	"math/rand"
	"testing"

	"github.com/prometheus/client_golang/prometheus"

	"github.com/Trendyol/go-dcp/couchbase"
	"github.com/Trendyol/go-dcp/models"
	"github.com/Trendyol/go-dcp/stream"
	"github.com/Trendyol/go-dcp/wrapper"
	"github.com/couchbase/gocbcore/v10"
)

type vfObs struct {
	couchbase.Observer
	persist uint64
	m       couchbase.ObserverMetric
}

func (o *vfObs) GetPersistSeqNo() gocbcore.SeqNo       { return gocbcore.SeqNo(o.persist) }
func (o *vfObs) GetMetrics() *couchbase.ObserverMetric { return &o.m }

type vfStream struct {
	stream.Stream
	observers *wrapper.ConcurrentSwissMap[uint16, couchbase.Observer]
	offsets   *wrapper.ConcurrentSwissMap[uint16, *models.Offset]
	metric    stream.Metric
	active    int32
	cp        stream.CheckpointMetric
}

func (s *vfStream) GetObservers() *wrapper.ConcurrentSwissMap[uint16, couchbase.Observer] {
	return s.observers
}
func (s *vfStream) GetOffsets() (*wrapper.ConcurrentSwissMap[uint16, *models.Offset], *wrapper.ConcurrentSwissMap[uint16, bool], bool) {
	return s.offsets, nil, false
}
func (s *vfStream) GetMetric() (*stream.Metric, int32)            { return &s.metric, s.active }
func (s *vfStream) GetCheckpointMetric() *stream.CheckpointMetric { return &s.cp }

type vfMClient struct {
	couchbase.Client
	seq map[uint16]uint64
	err error
}

func (c *vfMClient) GetVBucketSeqNos(bool) (*wrapper.ConcurrentSwissMap[uint16, uint64], error) {
	if c.err != nil {
		return nil, c.err
	}
	m := wrapper.CreateConcurrentSwissMap[uint16, uint64](8)
	for k, v := range c.seq {
		m.Store(k, v)
	}
	return m, nil
}
func (c *vfMClient) GetAgentQueues() []*models.AgentQueue { return nil }

type vfDisc struct {
	stream.VBucketDiscovery
	m stream.VBucketDiscoveryMetric
}

func (d *vfDisc) GetMetric() *stream.VBucketDiscoveryMetric { return &d.m }

func scrape(t *testing.T, c prometheus.Collector) map[string]float64 {
	reg := prometheus.NewPedanticRegistry()
	if err := reg.Register(c); err != nil {
		t.Fatalf("register: %v", err)
	}
	mfs, _ := reg.Gather() // an error here is the invalid lag metric of the failing-query scenario
	out := map[string]float64{}
	for _, mf := range mfs {
		for _, m := range mf.GetMetric() {
			name := mf.GetName()
			for _, l := range m.GetLabel() {
				name += "{" + l.GetName() + "=" + l.GetValue() + "}"
			}
			switch {
			case m.GetGauge() != nil:
				out[name] = m.GetGauge().GetValue()
			case m.GetCounter() != nil:
				out[name] = m.GetCounter().GetValue()
			}
		}
	}
	return out
}

func TestVerifFallbackCollect(t *testing.T) {
	r := rand.New(rand.NewSource(16))
	for it := 0; it < 150; it++ {
		st := &vfStream{observers: wrapper.CreateConcurrentSwissMap[uint16, couchbase.Observer](8), offsets: wrapper.CreateConcurrentSwissMap[uint16, *models.Offset](8),
			metric: stream.Metric{ProcessLatency: int64(r.Intn(100)), DcpLatency: int64(r.Intn(100)), Rebalance: r.Intn(9)}, active: int32(r.Intn(7)), cp: stream.CheckpointMetric{OffsetWrite: r.Intn(50), OffsetWriteLatency: int64(r.Intn(50))}}
		cl := &vfMClient{seq: map[uint16]uint64{}}
		disc := &vfDisc{m: stream.VBucketDiscoveryMetric{Type: "static", TotalMembers: 1 + r.Intn(8), MemberNumber: 1 + r.Intn(8), VBucketCount: 1024, VBucketRangeStart: uint16(r.Intn(500)), VBucketRangeEnd: uint16(500 + r.Intn(500))}}
		want := map[string]float64{}
		total := 0.0
		n := 1 + r.Intn(6)
		for k := 0; k < n; k++ {
			vb := uint16(k * 37)
			seq := uint64(r.Intn(1 << 20))
			off := &models.Offset{SnapshotMarker: &models.SnapshotMarker{StartSeqNo: seq / 2, EndSeqNo: seq + 9}, SeqNo: seq}
			st.offsets.Store(vb, off)
			o := &vfObs{persist: uint64(r.Intn(1000)), m: couchbase.ObserverMetric{TotalMutations: float64(r.Intn(99)), TotalDeletions: float64(r.Intn(99)), TotalExpirations: float64(r.Intn(99))}}
			st.observers.Store(vb, o)
			lag := 0.0
			switch r.Intn(4) {
			case 0:
				cl.seq[vb] = seq + uint64(1+r.Intn(1000))
				lag = float64(cl.seq[vb] - seq)
			case 1:
				cl.seq[vb] = seq
			case 2:
				cl.seq[vb] = seq / 2 // server behind the tracked position: lag 0, never negative or huge
			}
			total += lag
			l := fmt.Sprintf("{vbId=%d}", vb)
			want["cbgo_seq_no_current"+l] = float64(seq)
			want["cbgo_start_seq_no_current"+l] = float64(seq / 2)
			want["cbgo_end_seq_no_current"+l] = float64(seq + 9)
			want["cbgo_lag_current"+l] = lag
			want["cbgo_mutation_total"+l] = o.m.TotalMutations
			want["cbgo_deletion_total"+l] = o.m.TotalDeletions
			want["cbgo_expiration_total"+l] = o.m.TotalExpirations
		}
		want["cbgo_total_lag_current"] = total
		want["cbgo_active_stream_current"] = float64(st.active)
		want["cbgo_rebalance_current"] = float64(st.metric.Rebalance)
		want["cbgo_total_members_current"] = float64(disc.m.TotalMembers)
		want["cbgo_member_number_current"] = float64(disc.m.MemberNumber)
		want["cbgo_vbucket_range_start_current"] = float64(disc.m.VBucketRangeStart)
		want["cbgo_vbucket_range_end_current"] = float64(disc.m.VBucketRangeEnd)
		got := scrape(t, NewMetricCollector(cl, st, disc))
		for k, v := range want {
			if g, ok := got[k]; !ok || g != v {
				t.Fatalf("VIOLATION C16: state %d: metric %s = %v (present=%v), want %v", it, k, g, ok, v)
			}
		}
	}
	// the seqno query fails: no crash, position gauges still true
	st := &vfStream{observers: wrapper.CreateConcurrentSwissMap[uint16, couchbase.Observer](8), offsets: wrapper.CreateConcurrentSwissMap[uint16, *models.Offset](8)}
	st.offsets.Store(3, &models.Offset{SnapshotMarker: &models.SnapshotMarker{StartSeqNo: 1, EndSeqNo: 9}, SeqNo: 5})
	st.observers.Store(3, &vfObs{})
	got := scrape(t, NewMetricCollector(&vfMClient{err: errors.New("down")}, st, &vfDisc{}))
	if got["cbgo_seq_no_current{vbId=3}"] != 5 {
		t.Fatalf("VIOLATION C16: with a failing seqno query the position gauge is %v, want 5", got["cbgo_seq_no_current{vbId=3}"])
	}
	// closed stream: observers == nil
	closed := &vfStream{}
	if got := scrape(t, NewMetricCollector(&vfMClient{}, closed, &vfDisc{})); len(got) != 0 {
		t.Fatalf("VIOLATION C16: scraping a closed stream emitted %d metrics", len(got))
	}
}
