package dcp

// Fallback decider (bounded, properties C02 / C05 / C11 / C13 / C15 / C19): the real dcp.Start / dcp.close on a fake
// Couchbase client and a recording metadata backend (API and health check variants).
// Scenarios: auto checkpointing with acknowledged events then Close; manual checkpointing; read-only metadata mode
// with a custom backend; a membership notification on the bus; an unknown metadata type.
// Oracle: Close stores every position acknowledged before it (auto mode) before the streams are closed and never in
// manual / read-only mode; the connection is closed last (DcpClose then Close, after every stream); the health check
// is started and stopped with the client; the membership listener makes the stream rebalance (once per notification
// burst); an unknown metadata type stops the start-up.

import (
	"os"
	"sync"
	"testing"
	"time"

	"github.com/asaskevich/EventBus"
	"github.com/couchbase/gocbcore/v10"

	"github.com/Trendyol/go-dcp/config"
	"github.com/Trendyol/go-dcp/couchbase"
	"github.com/Trendyol/go-dcp/helpers"
	"github.com/Trendyol/go-dcp/logger"
	"github.com/Trendyol/go-dcp/membership"
	"github.com/Trendyol/go-dcp/models"
	"github.com/Trendyol/go-dcp/wrapper"
)

type vfRootClient struct {
	couchbase.Client
	mu         sync.Mutex
	log        []string
	obs        map[uint16]couchbase.Observer
	pings      int
	closeDelay time.Duration
}

func (c *vfRootClient) add(s string) { c.mu.Lock(); c.log = append(c.log, s); c.mu.Unlock() }
func (c *vfRootClient) snapshot() []string {
	c.mu.Lock()
	defer c.mu.Unlock()
	return append([]string(nil), c.log...)
}
func (c *vfRootClient) GetNumVBuckets() int { return 4 }
func (c *vfRootClient) GetCollectionIDs(string, []string) (map[uint32]string, error) {
	return map[uint32]string{}, nil
}
func (c *vfRootClient) GetVBucketSeqNos(bool) (*wrapper.ConcurrentSwissMap[uint16, uint64], error) {
	m := wrapper.CreateConcurrentSwissMap[uint16, uint64](8)
	for vb := uint16(0); vb < 4; vb++ {
		m.Store(vb, 1000)
	}
	return m, nil
}
func (c *vfRootClient) GetFailOverLogs(uint16) ([]gocbcore.FailoverEntry, error) {
	return []gocbcore.FailoverEntry{{VbUUID: 1}}, nil
}
func (c *vfRootClient) OpenStream(vb uint16, _ map[uint32]string, _ *models.Offset, o couchbase.Observer) error {
	c.mu.Lock()
	if c.obs == nil {
		c.obs = map[uint16]couchbase.Observer{}
	}
	c.obs[vb] = o
	c.log = append(c.log, "open")
	c.mu.Unlock()
	return nil
}
func (c *vfRootClient) CloseStream(uint16) error {
	time.Sleep(c.closeDelay)
	c.add("closeStream")
	return nil
}
func (c *vfRootClient) DcpClose() { c.add("DcpClose") }
func (c *vfRootClient) Close()    { c.add("Close") }
func (c *vfRootClient) Ping() (*models.PingResult, error) {
	c.mu.Lock()
	c.pings++
	c.mu.Unlock()
	return &models.PingResult{}, nil
}
func (c *vfRootClient) GetDcpAgentConfigSnapshot() (*gocbcore.ConfigSnapshot, error) {
	return &gocbcore.ConfigSnapshot{}, nil // BucketUUID is made nil-safe by the overlay
}
func (c *vfRootClient) GetAgentQueues() []*models.AgentQueue { return nil }

type vfRootMetadata struct {
	cl     *vfRootClient
	mu     sync.Mutex
	stored map[uint16]uint64
	saves  int
}

func (m *vfRootMetadata) Save(state map[uint16]*models.CheckpointDocument, dirty map[uint16]bool, _ string) error {
	m.mu.Lock()
	defer m.mu.Unlock()
	m.saves++
	if m.stored == nil {
		m.stored = map[uint16]uint64{}
	}
	for vb, d := range state {
		if dirty[vb] {
			m.stored[vb] = d.Checkpoint.SeqNo
		}
	}
	m.cl.add("save")
	return nil
}
func (m *vfRootMetadata) Load(ids []uint16, b string) (*wrapper.ConcurrentSwissMap[uint16, *models.CheckpointDocument], bool, error) {
	st := wrapper.CreateConcurrentSwissMap[uint16, *models.CheckpointDocument](8)
	for _, vb := range ids {
		st.Store(vb, models.NewEmptyCheckpointDocument(b))
	}
	return st, false, nil
}
func (m *vfRootMetadata) Clear([]uint16) error { return nil }

type vfAckConsumer struct{ acked int }

func (c *vfAckConsumer) ConsumeEvent(ctx *models.ListenerContext) { ctx.Ack(); c.acked++ }
func (c *vfAckConsumer) TrackOffset(uint16, *models.Offset)       {}

func vfNewDcp(cfgMod func(*config.Dcp)) (*dcp, *vfRootClient, *vfRootMetadata) {
	cfg := &config.Dcp{}
	cfg.ApplyDefaults()
	cfg.API.Disabled = true
	cfg.HealthCheck.Disabled = true
	cfg.RollbackMitigation.Disabled = true
	cfg.Dcp.Group.Membership.Type = "static"
	cfg.Dcp.Group.Membership.RebalanceDelay = 200 * time.Millisecond
	cfg.Checkpoint.Interval = time.Hour
	if cfgMod != nil {
		cfgMod(cfg)
	}
	cl := &vfRootClient{}
	md := &vfRootMetadata{cl: cl}
	d := &dcp{client: cl, consumer: &vfAckConsumer{}, config: cfg, version: &couchbase.Version{Major: 7, Minor: 2}, bucketInfo: &couchbase.BucketInfo{},
		apiShutdown: make(chan struct{}, 1), cancelCh: make(chan os.Signal, 1), stopCh: make(chan struct{}, 1), readyCh: make(chan struct{}, 1),
		eventHandler: models.DefaultEventHandler, bus: EventBus.New()}
	d.SetMetadata(md)
	return d, cl, md
}

func vfRun(t *testing.T, d *dcp) chan struct{} {
	done := make(chan struct{})
	go func() { d.Start(); close(done) }()
	select {
	case <-d.WaitUntilReady():
	case <-time.After(5 * time.Second):
		t.Fatalf("the client did not become ready")
	}
	return done
}

func vfDeliver(cl *vfRootClient, vb uint16, seq uint64) {
	cl.mu.Lock()
	o := cl.obs[vb]
	cl.mu.Unlock()
	o.SnapshotMarker(models.DcpSnapshotMarker{VbID: vb, StartSeqNo: seq, EndSeqNo: seq})
	o.Mutation(gocbcore.DcpMutation{VbID: vb, SeqNo: seq, Key: []byte("k")})
}

func vfIndex(log []string, what string, last bool) int {
	idx := -1
	for i, s := range log {
		if s == what {
			idx = i
			if !last {
				return i
			}
		}
	}
	return idx
}

func TestVerifFallbackDcpLifecycle(t *testing.T) {
	if logger.Log == nil {
		logger.InitDefaultLogger("error")
	}
	// 1. auto checkpointing: positions acknowledged before Close are stored by Close, before the streams close;
	//    the connection goes last; the health check runs with the client and stops with it
	d, cl, md := vfNewDcp(func(c *config.Dcp) {
		c.Checkpoint.Type = "auto"
		c.HealthCheck.Disabled = false
		c.HealthCheck.Interval = 20 * time.Millisecond
	})
	done := vfRun(t, d)
	vfDeliver(cl, 1, 41)
	vfDeliver(cl, 3, 17)
	time.Sleep(100 * time.Millisecond)
	d.Close()
	select {
	case <-done:
	case <-time.After(5 * time.Second):
		t.Fatalf("VIOLATION C13: Close did not finish within 5 s")
	}
	if md.stored[1] != 41 || md.stored[3] != 17 {
		t.Fatalf("VIOLATION C05: Close with automatic checkpointing left acknowledged positions unsaved: stored %v, want vb1=41 vb3=17", md.stored)
	}
	log := cl.snapshot()
	if s, c := vfIndex(log, "save", true), vfIndex(log, "closeStream", false); s < 0 || c < 0 || s > c {
		t.Fatalf("VIOLATION C13: the final save must precede the closing of the streams: %v", log)
	}
	if dc, c, ls := vfIndex(log, "DcpClose", false), vfIndex(log, "Close", false), vfIndex(log, "closeStream", true); dc < 0 || c < 0 || !(ls < dc && dc < c) || c != len(log)-1 {
		t.Fatalf("VIOLATION C13: the connection must be closed last (streams, DcpClose, Close): %v", log)
	}
	cl.mu.Lock()
	p := cl.pings
	cl.mu.Unlock()
	if p == 0 {
		t.Fatalf("VIOLATION C19: the health check was not running while the client was up")
	}
	time.Sleep(150 * time.Millisecond)
	cl.mu.Lock()
	p2 := cl.pings
	cl.mu.Unlock()
	if p2 != p {
		t.Fatalf("VIOLATION C19: %d pings after Close returned", p2-p)
	}
	// 2. manual checkpointing: Close does not save
	d, cl, md = vfNewDcp(func(c *config.Dcp) { c.Checkpoint.Type = "manual" })
	done = vfRun(t, d)
	vfDeliver(cl, 2, 9)
	d.Close()
	<-done
	if md.saves != 0 {
		t.Fatalf("VIOLATION C05: manual checkpointing: Close wrote %d checkpoints", md.saves)
	}
	// 3. read-only metadata mode never writes to a custom backend
	d, cl, md = vfNewDcp(func(c *config.Dcp) { c.Checkpoint.Type = "auto"; c.Metadata.ReadOnly = true })
	done = vfRun(t, d)
	vfDeliver(cl, 0, 5)
	d.Commit()
	d.Close()
	<-done
	if md.saves != 0 {
		t.Fatalf("VIOLATION C02: read-only metadata mode wrote %d times to the metadata backend", md.saves)
	}
	// 4. a burst of membership notifications on the bus closes and reopens the stream once
	d, cl, md = vfNewDcp(nil)
	done = vfRun(t, d)
	cl.closeDelay = 120 * time.Millisecond // the next notifications arrive while the first one is still closing the streams
	for i := 0; i < 3; i++ {
		d.bus.Publish(helpers.MembershipChangedBusEventName, &membership.Model{MemberNumber: 1, TotalMembers: 1})
		time.Sleep(30 * time.Millisecond)
	}
	time.Sleep(1200 * time.Millisecond)
	opens, closes := 0, 0
	for _, s := range cl.snapshot() {
		switch s {
		case "open":
			opens++
		case "closeStream":
			closes++
		}
	}
	if opens != 8 || closes != 4 {
		t.Fatalf("VIOLATION C11: a burst of 3 membership notifications: %d stream requests and %d stream closes, want 8 and 4 (one close and one reopen of 4 vBuckets)", opens, closes)
	}
	d.Close()
	<-done
	// 5. unknown metadata type stops the start-up
	d, _, _ = vfNewDcp(func(c *config.Dcp) { c.Metadata.Type = "etcd" })
	d.metadata = nil
	died := func() (p bool) {
		defer func() { p = recover() != nil }()
		d.Start()
		return
	}()
	if !died {
		t.Fatalf("VIOLATION C15: an unknown metadata type did not stop the start-up")
	}
}
