package servicediscovery

// Fallback decider (bounded, property C10): three real monitor rounds of the leader-assigned numbering
// (~16 s: the 5 s round interval is hard coded). Group: leader + 4 followers registered in shuffled order with
// distinct join times; one follower's first Rebalance call fails; between the rounds one follower re-registers under
// its old name with a new connection and one follower is removed. Oracle: the leader is 1 of N+1 and announces a
// numbering only when it changed; in every round every registered follower is told its number 2.. in join order and
// the same group size; numbers are distinct and within 1..size; registry operations (Add/Remove) act on exactly the
// named entry.

import (
	"errors"
	"sync"
	"testing"
	"time"

	"github.com/asaskevich/EventBus"

	"github.com/Trendyol/go-dcp/config"
	"github.com/Trendyol/go-dcp/helpers"
	"github.com/Trendyol/go-dcp/logger"
	"github.com/Trendyol/go-dcp/membership"
)

type vfFollower struct {
	mu        sync.Mutex
	got       [][2]int
	failFirst bool
	closed    bool
	pingFails bool
}

func (f *vfFollower) Close() error { f.mu.Lock(); f.closed = true; f.mu.Unlock(); return nil }
func (f *vfFollower) Ping() error {
	f.mu.Lock()
	defer f.mu.Unlock()
	if f.pingFails {
		return errors.New("no pong")
	}
	return nil
}
func (f *vfFollower) Register() error   { return nil }
func (f *vfFollower) IsConnected() bool { return true }
func (f *vfFollower) Reconnect() error  { return nil }
func (f *vfFollower) Rebalance(n, total int) error {
	f.mu.Lock()
	defer f.mu.Unlock()
	f.got = append(f.got, [2]int{n, total})
	if f.failFirst && len(f.got) == 1 {
		return errors.New("rpc failed")
	}
	return nil
}
func (f *vfFollower) last() ([2]int, int) {
	f.mu.Lock()
	defer f.mu.Unlock()
	if len(f.got) == 0 {
		return [2]int{}, 0
	}
	return f.got[len(f.got)-1], len(f.got)
}

func TestVerifFallbackMonitorRounds(t *testing.T) {
	if logger.Log == nil {
		logger.InitDefaultLogger("error")
	}
	bus := EventBus.New()
	var mu sync.Mutex
	var announced []membership.Model
	if err := bus.Subscribe(helpers.MembershipChangedBusEventName, func(m *membership.Model) { mu.Lock(); announced = append(announced, *m); mu.Unlock() }); err != nil {
		t.Fatal(err)
	}
	cfg := &config.Dcp{}
	sd := NewServiceDiscovery(cfg, bus).(*serviceDiscovery)
	f := map[string]*vfFollower{"a": {}, "b": {failFirst: true}, "c": {}, "d": {}}
	for _, n := range []string{"c", "a", "d", "b"} { // registration order differs from join order
		sd.Add(NewService(f[n], n, map[string]int64{"a": 100, "b": 200, "c": 300, "d": 400}[n]))
	}
	sd.BeLeader()
	sd.StartMonitor()
	defer sd.StopMonitor()
	time.Sleep(5600 * time.Millisecond) // round 1
	want := map[string]int{"a": 2, "b": 3, "c": 4, "d": 5}
	for n, fo := range f {
		l, k := fo.last()
		if k != 1 || l != [2]int{want[n], 5} {
			t.Fatalf("VIOLATION C10: round 1: follower %s was told %v (%d calls), want %d of 5", n, l, k, want[n])
		}
	}
	mu.Lock()
	if len(announced) != 1 || announced[0] != (membership.Model{MemberNumber: 1, TotalMembers: 5}) {
		t.Fatalf("VIOLATION C10: round 1: leader announced %v, want exactly 1 of 5 once", announced)
	}
	mu.Unlock()
	// between rounds 1 and 2: a re-registers under its old name with a new connection; the list of names is unchanged
	a2 := &vfFollower{}
	sd.Add(NewService(a2, "a", 100))
	if names := sd.GetAll(); len(names) != 4 || names[0] != "a" || names[1] != "b" || names[2] != "c" || names[3] != "d" {
		t.Fatalf("VIOLATION C10: registry after the re-registration of a: %v, want [a b c d]", names)
	}
	time.Sleep(5000 * time.Millisecond) // round 2: nothing changed in the numbering, yet everybody is told again
	if l, k := a2.last(); k != 1 || l != [2]int{2, 5} {
		t.Fatalf("VIOLATION C10: round 2: the re-registered follower a was told %v (%d calls), want 2 of 5 (the numbering is re-sent every round)", l, k)
	}
	if _, k := f["a"].last(); k != 1 {
		t.Fatalf("VIOLATION C10: round 2: the replaced connection of follower a was used again")
	}
	for n, num := range map[string]int{"b": 3, "c": 4, "d": 5} {
		if l, k := f[n].last(); k != 2 || l != [2]int{num, 5} {
			t.Fatalf("VIOLATION C10: round 2: follower %s was told %v (%d calls), want %d of 5 again", n, l, k, num)
		}
	}
	mu.Lock()
	if len(announced) != 1 {
		t.Fatalf("VIOLATION C10: the unchanged numbering was announced again: %v", announced)
	}
	mu.Unlock()
	// between rounds 2 and 3: c is replaced by a new follower e (the group keeps its size), b stops answering pings
	e := &vfFollower{}
	sd.Remove("c")
	if !f["c"].closed {
		t.Fatalf("VIOLATION C10: removing follower c did not close its connection")
	}
	sd.Add(NewService(e, "e", 500))
	f["b"].pingFails = true
	time.Sleep(5000 * time.Millisecond) // round 3
	if l, k := a2.last(); k != 2 || l != [2]int{2, 5} {
		t.Fatalf("VIOLATION C10: round 3: follower a was told %v (%d calls), want 2 of 5", l, k)
	}
	if l, k := f["b"].last(); k != 3 || l != [2]int{3, 5} {
		t.Fatalf("VIOLATION C10: round 3: follower b (not answering pings, still registered) was told %v (%d calls), want 3 of 5", l, k)
	}
	if l, k := f["d"].last(); k != 3 || l != [2]int{4, 5} {
		t.Fatalf("VIOLATION C10: round 3: follower d was told %v (%d calls), want 4 of 5 after c left", l, k)
	}
	if l, k := e.last(); k != 1 || l != [2]int{5, 5} {
		t.Fatalf("VIOLATION C10: round 3: the new follower e (the group kept its size) was told %v (%d calls), want 5 of 5", l, k)
	}
	if _, k := f["c"].last(); k != 2 {
		t.Fatalf("VIOLATION C10: round 3: the removed follower c was still numbered")
	}
	mu.Lock()
	if len(announced) != 1 {
		t.Fatalf("VIOLATION C10: after round 3 the leader had announced %v, want only [1/5]", announced)
	}
	mu.Unlock()
	sd.SetInfo(1, 4)
	mu.Lock()
	if len(announced) != 2 || announced[1] != (membership.Model{MemberNumber: 1, TotalMembers: 4}) {
		t.Fatalf("VIOLATION C10: a changed numbering 1/4 was not announced: %v", announced)
	}
	mu.Unlock()
	// a numbering already in effect is not announced again
	sd.SetInfo(1, 4)
	mu.Lock()
	if len(announced) != 2 {
		t.Fatalf("VIOLATION C10: a numbering already in effect was announced again: %v", announced)
	}
	mu.Unlock()
}
