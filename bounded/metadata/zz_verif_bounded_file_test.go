package metadata

// Bounded stand-in (property C02, labelled bounded): the file backend and the read-only wrapper on the
// real code. Save then Load through fileMetadata returns every field unchanged; Load through
// NewReadMetadata(file) returns the same, and Save/Clear through the wrapper leave the file untouched.
// Bound: 14 boundary values per field (rotated over 4 fields and 5 vBucket ids) + 400 pseudo-random maps.

import (
	"bytes"
	"math/rand"
	"os"
	"path/filepath"
	"testing"

	"github.com/Trendyol/go-dcp/models"
)

func TestVerifBoundedFileMetadata(t *testing.T) {
	dir := t.TempDir()
	b := []uint64{0, 1, 255, 1 << 31, 1<<32 - 1, 1 << 32, 1<<53 - 1, 1 << 53, 1<<53 + 1, 1<<63 - 1, 1 << 63, 1<<63 + 1, 1<<64 - 2, 1<<64 - 1}
	cases := 0
	round := func(state map[uint16]*models.CheckpointDocument) {
		cases++
		f := &fileMetadata{fileName: filepath.Join(dir, "cp.json")}
		var ids []uint16
		for id := range state {
			ids = append(ids, id)
		}
		// the file holds ONE document for all vBuckets: whatever subset is marked dirty, a save followed by a
		// load returns every vBucket of the state (the expectation is copied first: the store must not be
		// trusted to leave the caller's map alone)
		want := map[uint16]models.CheckpointDocument{}
		dirty := map[uint16]bool{}
		for id, d := range state {
			c := *d
			cp := *d.Checkpoint
			sn := *d.Checkpoint.Snapshot
			cp.Snapshot = &sn
			c.Checkpoint = &cp
			want[id] = c
			if (int(id)+cases)%3 != 0 {
				dirty[id] = (int(id)+cases)%2 == 0
			}
		}
		if err := f.Save(state, dirty, "b-uuid"); err != nil {
			t.Fatalf("save: %v", err)
		}
		if len(state) != len(want) {
			t.Errorf("VIOLATION C02: file backend: Save removed %d of %d vBuckets from the state it was handed", len(want)-len(state), len(want))
			return
		}
		before, _ := os.ReadFile(f.fileName)
		for name, md := range map[string]Metadata{"file": f, "read-only": NewReadMetadata(f)} {
			got, exist, err := md.Load(ids, "b-uuid")
			if err != nil || !exist || got == nil {
				t.Fatalf("%s load: exist=%v err=%v", name, exist, err)
			}
			for id, w := range want {
				want := &w
				d, ok := got.Load(id)
				if !ok || d == nil || d.Checkpoint == nil || d.Checkpoint.Snapshot == nil || *d.Checkpoint.Snapshot != *want.Checkpoint.Snapshot ||
					d.Checkpoint.VbUUID != want.Checkpoint.VbUUID || d.Checkpoint.SeqNo != want.Checkpoint.SeqNo || d.BucketUUID != want.BucketUUID {
					t.Errorf("VIOLATION C02: %s backend: vb %d saved as %+v/%+v re-loads as %+v", name, id, want.Checkpoint, want.Checkpoint.Snapshot, d)
					return
				}
			}
		}
		ro := NewReadMetadata(f)
		_ = ro.Save(map[uint16]*models.CheckpointDocument{1: models.NewEmptyCheckpointDocument("x")}, map[uint16]bool{1: true}, "x")
		_ = ro.Clear(ids)
		after, err := os.ReadFile(f.fileName)
		if err != nil || !bytes.Equal(before, after) {
			t.Errorf("VIOLATION C02: read-only metadata mode wrote to the store (err=%v)", err)
		}
	}
	doc := func(u, s, a, e uint64) *models.CheckpointDocument {
		return &models.CheckpointDocument{BucketUUID: "b-uuid", Checkpoint: &models.CheckpointDocumentCheckpoint{VbUUID: u, SeqNo: s, Snapshot: &models.CheckpointDocumentSnapshot{StartSeqNo: a, EndSeqNo: e}}}
	}
	for i := range b {
		st := map[uint16]*models.CheckpointDocument{}
		for k, id := range []uint16{0, 1, 511, 1023, 65535} {
			st[id] = doc(b[(i+k)%len(b)], b[(i+k+3)%len(b)], b[(i+k+7)%len(b)], b[(i+k+11)%len(b)])
		}
		round(st)
	}
	r := rand.New(rand.NewSource(20260928))
	for i := 0; i < 400; i++ {
		st := map[uint16]*models.CheckpointDocument{}
		for k := 0; k < 1+r.Intn(6); k++ {
			st[uint16(r.Intn(1024))] = doc(r.Uint64(), r.Uint64(), r.Uint64(), r.Uint64())
		}
		round(st)
	}
	// a checkpoint file that exists but cannot be read is an error, never "no checkpoint yet" (which would
	// restart the vBuckets from zero or, with auto-reset latest, jump over unsettled events)
	fault := &fileMetadata{fileName: dir} // a directory: os.ReadFile fails with EISDIR
	if got, exist, err := fault.Load([]uint16{0, 1}, "b-uuid"); err == nil {
		t.Errorf("VIOLATION C02: file backend: an unreadable checkpoint file loads as exist=%v state=%v without an error", exist, got != nil)
	}
	missing := &fileMetadata{fileName: filepath.Join(dir, "absent.json")}
	if got, exist, err := missing.Load([]uint16{3, 4}, "b-uuid"); err != nil || exist || got == nil || got.Count() != 2 {
		t.Errorf("VIOLATION C02: file backend: a missing checkpoint file must load as 'no checkpoint' with an empty document per vBucket (exist=%v err=%v)", exist, err)
	} else {
		got.Range(func(id uint16, d *models.CheckpointDocument) bool {
			if d == nil || d.Checkpoint == nil || d.Checkpoint.Snapshot == nil || d.Checkpoint.SeqNo != 0 || d.Checkpoint.VbUUID != 0 || d.Checkpoint.Snapshot.StartSeqNo != 0 || d.Checkpoint.Snapshot.EndSeqNo != 0 || d.BucketUUID != "b-uuid" {
				t.Errorf("VIOLATION C02: file backend: vb %d of a missing file loads as %+v, want the empty document", id, d)
			}
			return true
		})
	}
	t.Logf("bounded C02 file/read-only metadata: %d round trips", cases)
}
