package metadata

// Bounded stand-in (property C02, labelled bounded): the file backend and the read-only wrapper on the
// real code. Save then Load through fileMetadata returns every field unchanged; Load through
// NewReadMetadata(file) returns the same, and Save/Clear through the wrapper leave the file untouched.
// Bound: 14 boundary values per field (rotated over 4 fields and 5 vBucket ids) + 400 pseudo-random maps.

import (
	"bytes"
	"math/rand"
	"os"
	"path/filepath"
	"testing"

	"github.com/Trendyol/go-dcp/models"
)

func TestVerifBoundedFileMetadata(t *testing.T) {
	dir := t.TempDir()
	b := []uint64{0, 1, 255, 1 << 31, 1<<32 - 1, 1 << 32, 1<<53 - 1, 1 << 53, 1<<53 + 1, 1<<63 - 1, 1 << 63, 1<<63 + 1, 1<<64 - 2, 1<<64 - 1}
	cases := 0
	round := func(state map[uint16]*models.CheckpointDocument) {
		cases++
		f := &fileMetadata{fileName: filepath.Join(dir, "cp.json")}
		var ids []uint16
		for id := range state {
			ids = append(ids, id)
		}
		if err := f.Save(state, map[uint16]bool{}, "b-uuid"); err != nil {
			t.Fatalf("save: %v", err)
		}
		before, _ := os.ReadFile(f.fileName)
		for name, md := range map[string]Metadata{"file": f, "read-only": NewReadMetadata(f)} {
			got, exist, err := md.Load(ids, "b-uuid")
			if err != nil || !exist || got == nil {
				t.Fatalf("%s load: exist=%v err=%v", name, exist, err)
			}
			for id, want := range state {
				d, ok := got.Load(id)
				if !ok || d == nil || d.Checkpoint == nil || d.Checkpoint.Snapshot == nil || *d.Checkpoint.Snapshot != *want.Checkpoint.Snapshot ||
					d.Checkpoint.VbUUID != want.Checkpoint.VbUUID || d.Checkpoint.SeqNo != want.Checkpoint.SeqNo || d.BucketUUID != want.BucketUUID {
					t.Errorf("VIOLATION C02: %s backend: vb %d saved as %+v/%+v re-loads as %+v", name, id, want.Checkpoint, want.Checkpoint.Snapshot, d)
					return
				}
			}
		}
		ro := NewReadMetadata(f)
		_ = ro.Save(map[uint16]*models.CheckpointDocument{1: models.NewEmptyCheckpointDocument("x")}, map[uint16]bool{1: true}, "x")
		_ = ro.Clear(ids)
		after, err := os.ReadFile(f.fileName)
		if err != nil || !bytes.Equal(before, after) {
			t.Errorf("VIOLATION C02: read-only metadata mode wrote to the store (err=%v)", err)
		}
	}
	doc := func(u, s, a, e uint64) *models.CheckpointDocument {
		return &models.CheckpointDocument{BucketUUID: "b-uuid", Checkpoint: &models.CheckpointDocumentCheckpoint{VbUUID: u, SeqNo: s, Snapshot: &models.CheckpointDocumentSnapshot{StartSeqNo: a, EndSeqNo: e}}}
	}
	for i := range b {
		st := map[uint16]*models.CheckpointDocument{}
		for k, id := range []uint16{0, 1, 511, 1023, 65535} {
			st[id] = doc(b[(i+k)%len(b)], b[(i+k+3)%len(b)], b[(i+k+7)%len(b)], b[(i+k+11)%len(b)])
		}
		round(st)
	}
	r := rand.New(rand.NewSource(20260928))
	for i := 0; i < 400; i++ {
		st := map[uint16]*models.CheckpointDocument{}
		for k := 0; k < 1+r.Intn(6); k++ {
			st[uint16(r.Intn(1024))] = doc(r.Uint64(), r.Uint64(), r.Uint64(), r.Uint64())
		}
		round(st)
	}
	t.Logf("bounded C02 file/read-only metadata: %d round trips", cases)
}
