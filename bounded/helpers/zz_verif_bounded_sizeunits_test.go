package helpers

// Bounded stand-in (property C17, labelled bounded, never counted as proved):
// the real ResolveUnionIntOrStringValue on a grid of size strings.
// Bound: numbers 0..2048 with 0, 1 or 2 decimals (separator '.' or ','), units kb/mb/gb in the four
// letter-case spellings, with and without blanks around the number; plain integers; int and uint inputs.
// Oracle: exact rational arithmetic, number * 1024^k truncated toward zero. On this grid the error of
// float parsing/multiplication (< 2^-12) cannot cross an integer boundary (fractions are multiples of 1/100).

import (
	"fmt"
	"math/big"
	"testing"
)

func TestVerifBoundedSizeUnits(t *testing.T) {
	units := map[string]int64{"kb": 1 << 10, "mb": 1 << 20, "gb": 1 << 30}
	spell := func(u string) []string {
		a, b := u[0], u[1]
		up := func(c byte) byte { return c - 32 }
		return []string{u, string([]byte{up(a), up(b)}), string([]byte{up(a), b}), string([]byte{a, up(b)})}
	}
	cases, bad := 0, 0
	check := func(in string, want *big.Int) {
		cases++
		got := ResolveUnionIntOrStringValue(in)
		if !want.IsInt64() || int64(got) != want.Int64() {
			bad++
			if bad <= 5 {
				t.Errorf("VIOLATION C17: size string %q resolves to %d, want %s (number * 1024^k truncated)", in, got, want)
			}
		}
	}
	var nums []string
	for n := 0; n <= 2048; n++ {
		if n <= 64 || n%37 == 0 || n >= 2040 {
			nums = append(nums, fmt.Sprint(n))
			for _, d := range []int{0, 1, 4, 5, 9} {
				nums = append(nums, fmt.Sprintf("%d.%d", n, d))
			}
			for _, d := range []int{1, 25, 49, 50, 51, 75, 99} {
				nums = append(nums, fmt.Sprintf("%d.%02d", n, d))
			}
		}
	}
	for _, num := range nums {
		r, ok := new(big.Rat).SetString(num)
		if !ok {
			t.Fatalf("oracle: %q", num)
		}
		for u, mult := range units {
			p := new(big.Rat).Mul(r, new(big.Rat).SetInt64(mult))
			want := new(big.Int).Quo(p.Num(), p.Denom()) // truncation (values are >= 0)
			for si, sp := range spell(u) {
				check(num+sp, want)
				if si == 0 {
					check(" "+num+" "+sp, want)
					if len(num) > 2 {
						comma := []byte(num)
						for i := range comma {
							if comma[i] == '.' {
								comma[i] = ','
							}
						}
						check(string(comma)+sp, want)
					}
				}
			}
		}
	}
	for _, n := range []int64{0, 1, 7, 1023, 1024, 20971520, 1 << 40, -5} {
		check(fmt.Sprint(n), big.NewInt(n))
		cases++
		if got := ResolveUnionIntOrStringValue(int(n)); int64(got) != n {
			t.Errorf("VIOLATION C17: int %d resolves to %d", n, got)
		}
		if n >= 0 {
			cases++
			if got := ResolveUnionIntOrStringValue(uint(n)); int64(got) != n {
				t.Errorf("VIOLATION C17: uint %d resolves to %d", n, got)
			}
		}
	}
	if bad > 5 {
		t.Errorf("... and %d more mismatches", bad-5)
	}
	t.Logf("bounded C17 size units: %d cases", cases)
}
