package couchbase

// Bounded stand-in (property C18, labelled bounded): the real nodeVersionFromString on a grid of
// well-formed and malformed version strings. Bound: components from a fixed list (incl. zero padded
// and multi digit), the five layouts M, M.m, M.m.p, M.m.p-build, M.m.p-build-edition.

import (
	"fmt"
	"strconv"
	"testing"
)

func TestVerifBoundedVersionParse(t *testing.T) {
	comps := []string{"0", "1", "5", "6", "7", "9", "10", "12", "65", "100", "07", "010"}
	builds := []string{"0", "1", "99", "120", "0120", "0815", "4998", "50000", "007"}
	dec := func(s string) int { n, _ := strconv.ParseInt(s, 10, 64); return int(n) }
	cases, bad := 0, 0
	expect := func(in string, want Version) {
		cases++
		v, err := nodeVersionFromString(in)
		if err != nil || v == nil {
			if bad++; bad <= 5 {
				t.Errorf("VIOLATION C18: well-formed version %q rejected: %v", in, err)
			}
			return
		}
		if *v != want {
			if bad++; bad <= 5 {
				t.Errorf("VIOLATION C18: version %q parses to %+v, want %+v", in, *v, want)
			}
		}
	}
	for _, M := range comps {
		expect(M, Version{Major: dec(M)})
		for _, m := range comps {
			expect(M+"."+m, Version{Major: dec(M), Minor: dec(m)})
			for _, p := range []string{"0", "1", "2", "10", "03"} {
				expect(fmt.Sprintf("%s.%s.%s", M, m, p), Version{Major: dec(M), Minor: dec(m), Patch: dec(p)})
				if M == "7" || m == "5" {
					for _, b := range builds {
						w := Version{Major: dec(M), Minor: dec(m), Patch: dec(p), Build: dec(b)}
						expect(fmt.Sprintf("%s.%s.%s-%s", M, m, p, b), w)
						expect(fmt.Sprintf("%s.%s.%s-%s-enterprise", M, m, p, b), w)
						expect(fmt.Sprintf("%s.%s.%s-%s-community", M, m, p, b), w)
					}
				}
			}
		}
	}
	for _, in := range []string{"", "a", "a.1", "7.x", "7.1.x", "7..1", ".7", "7.1.-3x"} {
		cases++
		if v, err := nodeVersionFromString(in); err == nil && in != "7.1.-3x" {
			t.Errorf("VIOLATION C18: malformed version %q accepted as %+v", in, v)
		}
	}
	// ordering between builds follows the decimal value
	a, _ := nodeVersionFromString("7.2.0-0120-enterprise")
	b, _ := nodeVersionFromString("7.2.0-99-enterprise")
	if a == nil || b == nil || !a.Higher(b) {
		t.Errorf("VIOLATION C18: 7.2.0-0120 does not sort above 7.2.0-99: %+v %+v", a, b)
	}
	if bad > 5 {
		t.Errorf("... and %d more mismatches", bad-5)
	}
	t.Logf("bounded C18 version strings: %d cases", cases)
}
