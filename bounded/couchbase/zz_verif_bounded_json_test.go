package couchbase

// Bounded stand-in (property C02, labelled bounded): the JSON text round trip of a checkpoint document
// exactly as cbMetadata.Save (sonic.Marshal(doc)) and cbMetadata.Load (sonic.Unmarshal(data, &doc)) do it.
// Bound: every field takes each of 14 boundary values (0, 1, 2^31, 2^32-1, 2^53-1, 2^53, 2^53+1, 2^63-1,
// 2^63, 2^63+1, 2^64-2, 2^64-1, ...) with the others at distinct boundary values, plus 3000 documents of
// pseudo-random 64-bit values (fixed seed).

import (
	"math/rand"
	"testing"

	"github.com/bytedance/sonic"

	"github.com/Trendyol/go-dcp/models"
)

func TestVerifBoundedCheckpointJSON(t *testing.T) {
	b := []uint64{0, 1, 255, 1 << 31, 1<<32 - 1, 1 << 32, 1<<53 - 1, 1 << 53, 1<<53 + 1, 1<<63 - 1, 1 << 63, 1<<63 + 1, 1<<64 - 2, 1<<64 - 1}
	cases, bad := 0, 0
	try := func(uuid, seq, start, end uint64) {
		cases++
		in := &models.CheckpointDocument{BucketUUID: "b-uuid", Checkpoint: &models.CheckpointDocumentCheckpoint{VbUUID: uuid, SeqNo: seq, Snapshot: &models.CheckpointDocumentSnapshot{StartSeqNo: start, EndSeqNo: end}}}
		payload, err := sonic.Marshal(in)
		if err != nil {
			t.Fatalf("marshal: %v", err)
		}
		var out models.CheckpointDocument
		if err := sonic.Unmarshal(payload, &out); err != nil {
			t.Fatalf("unmarshal %s: %v", payload, err)
		}
		if out.Checkpoint == nil || out.Checkpoint.Snapshot == nil || uint64(out.Checkpoint.VbUUID) != uuid || out.Checkpoint.SeqNo != seq ||
			out.Checkpoint.Snapshot.StartSeqNo != start || out.Checkpoint.Snapshot.EndSeqNo != end || out.BucketUUID != "b-uuid" {
			bad++
			if bad <= 5 {
				t.Errorf("VIOLATION C02: checkpoint {vbuuid:%d seqno:%d start:%d end:%d} re-loads as %s -> %+v", uuid, seq, start, end, payload, out.Checkpoint)
			}
		}
	}
	for i, v := range b {
		o1, o2, o3 := b[(i+3)%len(b)], b[(i+7)%len(b)], b[(i+11)%len(b)]
		try(v, o1, o2, o3)
		try(o1, v, o2, o3)
		try(o1, o2, v, o3)
		try(o1, o2, o3, v)
	}
	r := rand.New(rand.NewSource(20260928))
	for i := 0; i < 3000; i++ {
		try(r.Uint64(), r.Uint64(), r.Uint64(), r.Uint64())
	}
	if bad > 5 {
		t.Errorf("... and %d more mismatches", bad-5)
	}
	t.Logf("bounded C02 json round trip: %d cases", cases)
}
