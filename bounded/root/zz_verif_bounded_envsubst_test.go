package dcp

// Bounded stand-in (property C17, labelled bounded): ${VAR} substitution by the real newDcpConfig.
// Bound: 6 placeholder layouts (single, repeated in one value, repeated across options, adjacent, inside
// a list element, inside a map value) x variable states {set, set to the empty string, unset} x 6 values (two with regexp-template characters: $$, $1, $name, &).
// Oracle: every occurrence of ${NAME} is replaced by the variable's value when the variable is set
// (also when it is set to the empty string) and left untouched when it is not set.

import (
	"fmt"
	"os"
	"path/filepath"
	"testing"
)

func TestVerifBoundedEnvPlaceholders(t *testing.T) {
	dir := t.TempDir()
	cases := 0
	type env struct {
		set bool
		val string
	}
	states := []env{{true, "alpha"}, {true, "b-2_x.y"}, {true, "p@ss:w0rd"}, {true, "0042"}, {true, ""}, {false, ""}, {true, "pa$$w0rd$1x"}, {true, "$name-$0&"}}
	expand := func(name string, e env) string {
		if e.set {
			return e.val
		}
		return "${" + name + "}"
	}
	for i, a := range states {
		for j, b := range states {
			cases++
			A, B := fmt.Sprintf("VERIF_ENV_A_%d_%d", i, j), fmt.Sprintf("VERIF_ENV_B2_%d_%d", i, j)
			os.Unsetenv(A)
			os.Unsetenv(B)
			if a.set {
				t.Setenv(A, a.val)
			}
			if b.set {
				t.Setenv(B, b.val)
			}
			pa, pb := "${"+A+"}", "${"+B+"}"
			yaml := "hosts:\n  - \"h1-" + pa + ":8091\"\n  - \"" + pb + "\"\n" +
				"username: \"" + pa + "\"\n" +
				"password: \"x" + pa + "y" + pa + "z\"\n" +
				"bucketName: \"" + pa + pb + "\"\n" +
				"scopeName: \"s_" + pb + "\"\n" +
				"metadata:\n  type: couchbase\n  config:\n    bucket: \"m-" + pb + "\"\n    scope: \"" + pa + "\"\n"
			file := filepath.Join(dir, fmt.Sprintf("c_%d_%d.yml", i, j))
			if err := os.WriteFile(file, []byte(yaml), 0o600); err != nil {
				t.Fatal(err)
			}
			c, err := newDcpConfig(file)
			if err != nil {
				t.Fatalf("newDcpConfig: %v\n%s", err, yaml)
			}
			ea, eb := expand(A, a), expand(B, b)
			want := map[string][2]string{
				"hosts[0]":               {c.Hosts[0], "h1-" + ea + ":8091"},
				"hosts[1]":               {c.Hosts[1], eb},
				"username":               {c.Username, ea},
				"password":               {c.Password, "x" + ea + "y" + ea + "z"},
				"bucketName":             {c.BucketName, ea + eb},
				"scopeName":              {c.ScopeName, "s_" + eb},
				"metadata.config.bucket": {c.Metadata.Config["bucket"], "m-" + eb},
				"metadata.config.scope":  {c.Metadata.Config["scope"], ea},
			}
			for opt, gw := range want {
				if gw[0] != gw[1] {
					t.Errorf("VIOLATION C17: option %s: got %q, want %q (A set=%v %q, B set=%v %q)", opt, gw[0], gw[1], a.set, a.val, b.set, b.val)
				}
			}
		}
	}
	t.Logf("bounded C17 env placeholders: %d configurations", cases)
}
