package servicediscovery

// Bounded stand-in (property C10, labelled bounded): the follower registry behind the leader's numbering - Add,
// Remove, GetAll - whose GetAll contract is trusted (sorting through sort.Sort is outside the generator's reach).
// Bound: 300 pseudo-random sequences of 1..25 readings, each after 1..3 Add / re-Add / Remove operations, over 8 names with distinct join
// times. Oracle: after every operation GetAll returns exactly the registered names, each once, ordered by join
// time; a re-registration replaces the connection held for that name.

import (
	"math/rand"
	"sort"
	"testing"

	"github.com/asaskevich/EventBus"

	"github.com/Trendyol/go-dcp/config"
)

type vfNopClient struct{ id int }

func (*vfNopClient) Close() error             { return nil }
func (*vfNopClient) Ping() error              { return nil }
func (*vfNopClient) Register() error          { return nil }
func (*vfNopClient) IsConnected() bool        { return true }
func (*vfNopClient) Reconnect() error         { return nil }
func (*vfNopClient) Rebalance(int, int) error { return nil }

func TestVerifBoundedRegistry(t *testing.T) {
	r := rand.New(rand.NewSource(10))
	names := []string{"a", "b", "c", "d", "e", "f", "g", "h"}
	join := map[string]int64{"a": 50, "b": 10, "c": 80, "d": 20, "e": 70, "f": 30, "g": 60, "h": 40}
	for it := 0; it < 300; it++ {
		sd := NewServiceDiscovery(&config.Dcp{}, EventBus.New()).(*serviceDiscovery)
		model := map[string]*vfNopClient{}
		for k, n := 0, 1+r.Intn(25); k < n; k++ {
			for ops := 1 + r.Intn(3); ops > 0; ops-- { // several changes may happen between two readings of the registry
				name := names[r.Intn(len(names))]
				if r.Intn(3) == 0 {
					sd.Remove(name)
					delete(model, name)
				} else {
					c := &vfNopClient{id: it*1000 + k*10 + ops}
					sd.Add(NewService(c, name, join[name]))
					model[name] = c
				}
			}
			var want []string
			for n := range model {
				want = append(want, n)
			}
			sort.Slice(want, func(i, j int) bool { return join[want[i]] < join[want[j]] })
			got := sd.GetAll()
			if len(got) != len(want) {
				t.Fatalf("VIOLATION C10: registry holds %v, GetAll returned %v", want, got)
			}
			for i := range want {
				if got[i] != want[i] {
					t.Fatalf("VIOLATION C10: GetAll returned %v, want %v (registered followers in join order)", got, want)
				}
				if s, ok := sd.services.Load(want[i]); !ok || s.Client != model[want[i]] {
					t.Fatalf("VIOLATION C10: follower %s: the registry does not hold its latest connection", want[i])
				}
			}
		}
	}
}
